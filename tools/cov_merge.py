#!/venv/bin/python
"""tools/cov_merge.py — union of cov/<Cxx>.json: for every file some property is anchored in, the functions with statements
that no property's generators executed (diagnostic for generator gaps; see tools/cov.py)."""
import ast, glob, json, os, sys
HERE = os.path.dirname(os.path.dirname(os.path.abspath(__file__)))
sys.path.insert(0, HERE)
from vf import core
rp = core.repo_path()
execd, anchors = {}, {}
for f in sorted(glob.glob(os.path.join(HERE, "cov", "C*.json"))):
    d = json.load(open(f))
    for a in d["anchors"]:
        anchors.setdefault(a, []).append(d["property"])
    for k, v in d["executed"].items():
        execd.setdefault(k, set()).update(v)
import coverage
from coverage.python import PythonParser
for a in sorted(anchors):
    path = os.path.join(rp, a)
    if not os.path.exists(path):
        continue
    src = open(path).read()
    pp = PythonParser(text=src); pp.parse_source()
    stmts = pp.statements - pp.excluded
    done = execd.get(a, set())
    tree = ast.parse(src)
    rows = []
    for node in ast.walk(tree):
        if isinstance(node, (ast.FunctionDef, ast.AsyncFunctionDef)):
            body = [ln for ln in stmts if node.lineno < ln <= node.end_lineno]
            m = [ln for ln in body if ln not in done]
            if m and body:
                rows.append((node.lineno, node.name, len(m), len(body), m))
    tot = len(stmts); hit = len([x for x in stmts if x in done])
    print(f"{a} [{','.join(anchors[a])}]: {100.0*hit/max(1,tot):.0f}% of {tot}")
    for ln, name, m, b, ms in sorted(rows):
        print(f"    {name} (line {ln}): {m}/{b} not executed [{','.join(map(str, ms[:14]))}{'...' if len(ms) > 14 else ''}]")
