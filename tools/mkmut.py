#!/venv/bin/python
"""tools/mkmut.py <out.diff> <path relative to repo>  < stdin: OLD text, a line '=====', NEW text.
Writes a unified diff (p1) replacing the single occurrence of OLD by NEW in the file of /repo's working tree."""
import difflib, sys
out, rel = sys.argv[1], sys.argv[2]
old, new = sys.stdin.read().split("\n=====\n")
new = new.rstrip("\n")
old = old.rstrip("\n")
src = open(f"/repo/{rel}").read()
assert src.count(old) == 1, f"OLD occurs {src.count(old)} times"
dst = src.replace(old, new)
d = difflib.unified_diff(src.splitlines(True), dst.splitlines(True), f"a/{rel}", f"b/{rel}")
open(out, "w").write("".join(d))
print("wrote", out)
