#!/venv/bin/python
"""tools/record_fix.py <prop> <id> <subcheck> <commit> <label> <what>   < stdin: the failing case (vf.core JSON) or empty
Records a repaired defect: corpus/<prop>/<id>.json (replayed by every run), a 'fixed' entry in known_findings.json
(suppresses nothing) and mutants/<prop>/revert_<id>.diff (the reverse of the fix commit, used as a sensitivity mutant)."""
import json, os, subprocess, sys
HERE = os.path.dirname(os.path.dirname(os.path.abspath(__file__)))
sys.path.insert(0, HERE)
from vf import core
prop, fid, sub, commit, label, what = sys.argv[1:7]
raw = sys.stdin.read().strip()
entry = {"property": prop, "status": "fixed", "id": fid, "subcheck": sub, "commit": commit,
         "record": f"fixed: property={prop} {commit} {what}"}
if raw:
    case = core.loads(raw)
    os.makedirs(f"{HERE}/corpus/{prop}", exist_ok=True)
    path = f"corpus/{prop}/{fid}.json"
    open(f"{HERE}/{path}", "w").write(core.dumps({"property": prop, "subcheck": sub, "label": label, "hashseed": "0", "case": case}, indent=1))
    entry["corpus"] = path
kf = json.load(open(f"{HERE}/known_findings.json"))
kf = [e for e in kf if e.get("id") != fid] + [entry]
json.dump(kf, open(f"{HERE}/known_findings.json", "w"), indent=1)
os.makedirs(f"{HERE}/mutants/{prop}", exist_ok=True)
d = subprocess.run(["git", "-C", "/repo", "diff", commit, commit + "~1", "--", "pgmpy"], capture_output=True, text=True).stdout
open(f"{HERE}/mutants/{prop}/revert_{fid}.diff", "w").write(d)
print("recorded", fid)
