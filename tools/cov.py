#!/venv/bin/python
"""tools/cov.py <Cxx> [cases_per_subcheck] — which lines of the files a property is anchored in do its generators reach?

Runs every sub-check of the property in this process (Hypothesis strategy with a fixed seed, or the first cases of an
enumeration) under coverage.py restricted to /repo/pgmpy and prints, for each anchored source file, the share of executed
statements and the functions that contain unexecuted ones.  A diagnostic for generator gaps ("measure what the generator
actually produces"), not a check: nothing here decides a property.  Output: stdout and cov/<Cxx>.txt.
"""
import ast
import importlib
import json
import os
import sys

HERE = os.path.dirname(os.path.dirname(os.path.abspath(__file__)))
sys.path.insert(0, HERE)
prop = sys.argv[1]
n = int(sys.argv[2]) if len(sys.argv) > 2 else 150

import coverage  # noqa: E402

from vf import core  # noqa: E402

rp = core.repo_path()
cov = coverage.Coverage(source=[os.path.join(rp, "pgmpy")], data_file=None, branch=False)
cov.start()
core.setup_repo_import()
from vf.shard import Collector, run_strategy  # noqa: E402

mod = importlib.import_module(f"vf.props.{prop.lower()}")
os.environ.setdefault("VF_TMP", "/tmp")
for sub in mod.SUBCHECKS:
    col = Collector(prop, sub, mod, distinct_by_construction=sub.enumerate is not None)
    try:
        if sub.enumerate is not None:
            total, it = sub.enumerate("quick")
            step = max(1, total // n)
            for i in range(0, total, step):
                for case in it(i, i + 1):
                    col.run_case(case)
        else:
            run_strategy(col, sub, "quick", 12345, n)
    except BaseException as e:  # noqa: BLE001
        print(f"  sub {sub.name}: stopped by {type(e).__name__}: {e}")
    print(f"sub {sub.name}: {col.cases} cases, {len(col.buckets)} failure labels")
cov.stop()

anchors = []
for line in open(os.path.join(HERE, "properties.jsonl")):
    p = json.loads(line)
    if p["id"] == prop:
        anchors = (p.get("anchors") or {}).get("files", [])
lines_out = []
data = cov.get_data()
for a in anchors:
    a = a["path"] if isinstance(a, dict) else a
    path = os.path.join(rp, a)
    if not os.path.exists(path):
        continue
    try:
        _, stmts, _, missing, _ = cov.analysis2(path)
    except Exception as e:  # noqa: BLE001
        lines_out.append(f"{a}: not measured ({e})")
        continue
    miss = set(missing)
    tree = ast.parse(open(path).read())
    funcs = []
    for node in ast.walk(tree):
        if isinstance(node, (ast.FunctionDef, ast.AsyncFunctionDef)):
            body = [ln for ln in stmts if node.lineno <= ln <= node.end_lineno]
            m = [ln for ln in body if ln in miss]
            if m and body:
                funcs.append((node.name, node.lineno, len(m), len(body), m))
    pct = 100.0 * (len(stmts) - len(miss)) / max(1, len(stmts))
    lines_out.append(f"{a}: {pct:.0f}% of {len(stmts)} statements executed")
    for name, ln, m, b, ms in sorted(funcs, key=lambda x: x[1]):
        rng = ",".join(str(x) for x in ms[:12]) + ("..." if len(ms) > 12 else "")
        lines_out.append(f"    {name} (line {ln}): {m}/{b} statements not executed [{rng}]")
os.makedirs(os.path.join(HERE, "cov"), exist_ok=True)
executed = {}
for f in data.measured_files():
    if f.startswith(rp):
        executed[os.path.relpath(f, rp)] = sorted(data.lines(f) or [])
json.dump({"property": prop, "anchors": [a["path"] if isinstance(a, dict) else a for a in anchors], "executed": executed},
          open(os.path.join(HERE, "cov", f"{prop}.json"), "w"))
open(os.path.join(HERE, "cov", f"{prop}.txt"), "w").write("\n".join(lines_out) + "\n")
print("\n".join(lines_out))
