#!/bin/bash
# tools/baseline.sh [repo_dir]  — run the pinned suite (BASELINE.json cmd) and report stable_pass tests that no longer pass.
# Uses a scratch copy of the given tree under /tmp (removed afterwards) so that edits to /repo made meanwhile do not matter.
src=${1:-/repo}
d=$(mktemp -d /tmp/vf-base-XXXXXX)
trap 'rm -rf "$d"' EXIT
rsync -a --exclude .git --exclude '*.pyc' --exclude __pycache__ "$src/" "$d/repo/"
cd "$d/repo" && PGMPY_VERIF= /venv/bin/python -m pytest -ra -q -p no:cacheprovider --timeout=900 --continue-on-collection-errors --junitxml="$d/junit.xml" -x --maxfail=100000 > "$d/log" 2>&1
tail -3 "$d/log"
/venv/bin/python - "$d/junit.xml" <<'PY'
import json, sys, xml.etree.ElementTree as ET
base = json.load(open('/root/.vp/BASELINE.json'))
passed = set()
for tc in ET.parse(sys.argv[1]).getroot().iter('testcase'):
    if not any(ch.tag in ('failure', 'error', 'skipped') for ch in tc):
        passed.add(f"{tc.get('classname')}::{tc.get('name')}")
missing = [t for t in base['stable_pass'] if t not in passed]
print(f"BASELINE: stable_pass={len(base['stable_pass'])} passed_now={len(passed)} missing={len(missing)}")
for t in missing[:40]:
    print("  MISSING", t)
PY
