#!/bin/bash
# tools/mutant.sh <patch.diff> <Cxx> [tier]   — run a check against a scratch copy of /repo with the patch applied.
# The scratch copy lives under /tmp and is removed afterwards.  Exit code = exit code of the check.
set -u
patch=$(realpath "$1"); prop=$2; tier=${3:-quick}
d=$(mktemp -d /tmp/vf-mut-XXXXXX)
trap 'rm -rf "$d"' EXIT
rsync -a --exclude .git --exclude '*.pyc' --exclude __pycache__ --exclude docs --exclude examples /repo/ "$d/"
( cd "$d" && patch -p1 -s < "$patch" ) || { echo "patch failed"; exit 3; }
cd "$(dirname "$0")/.."
VF_OUT="$d/vf-out" VERIF_REPO="$d" VF_ONLY="${VF_ONLY:-}" ./check "$prop" "$tier"
rc=$?
echo "mutant $(basename "$patch") on $prop $tier -> exit $rc"
exit $rc
