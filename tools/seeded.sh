#!/bin/bash
# tools/seeded.sh <agent_out_dir> <k> <Cxx> <seeded_id> [relevant pytest paths...]
# Confirms a seeded change: (1) patch applies to a scratch copy of /repo, (2) demo exits 1 with it and 0 without,
# (3) the named test modules show no stable_pass regression, (4) runs the quick check against the patched copy.
# On success stores patch.diff, demo.py, meta.json under /verif/seeded/<seeded_id>/.
set -u
src=$1; k=$2; prop=$3; id=$4; shift 4
here=$(cd "$(dirname "$0")/.." && pwd)
d=$(mktemp -d /tmp/vf-seed-XXXXXX); trap 'rm -rf "$d"' EXIT
rsync -a --exclude .git --exclude '*.pyc' --exclude __pycache__ --exclude docs --exclude examples /repo/ "$d/clean/"
cp -r "$d/clean" "$d/patched"
( cd "$d/patched" && patch -p1 -s < "$src/patch$k.diff" ) || { echo "PATCH FAILED"; exit 3; }
# the demo is run from <tree>/out/ with the tree first on sys.path; hard-coded agent worktree paths are redirected
sed -E "s#([\"'])/tmp/seed2?-C[0-9]+/?([\"'])#__import__('os').environ.get('REPO_UNDER_TEST', '/repo')#g; s#/tmp/seed2?-C[0-9]+#\${REPO_UNDER_TEST}#g" "$src/demo$k.py" > "$d/demo.py"
grep -q 'REPO_UNDER_TEST}' "$d/demo.py" && sed -i -E "s#([\"'])([^\"']*)\$\{REPO_UNDER_TEST\}([^\"']*)([\"'])#(__import__('os').environ.get('REPO_UNDER_TEST', '/repo') + \1\3\4)#g" "$d/demo.py"
for t in clean patched; do mkdir -p "$d/$t/out"; cp "$d/demo.py" "$d/$t/out/demo.py"; done
( cd "$d/clean" && REPO_UNDER_TEST="$d/clean" PYTHONPATH="$d/clean" timeout 900 /venv/bin/python out/demo.py > "$d/demo_clean.log" 2>&1 ); rc_clean=$?
( cd "$d/patched" && REPO_UNDER_TEST="$d/patched" PYTHONPATH="$d/patched" timeout 900 /venv/bin/python out/demo.py > "$d/demo_patched.log" 2>&1 ); rc_patched=$?
echo "demo: clean rc=$rc_clean patched rc=$rc_patched :: $(tail -1 $d/demo_patched.log | cut -c1-200)"
reg="not run"
if [ $# -gt 0 ]; then
  ( cd "$d/patched" && /venv/bin/python -m pytest -q -p no:cacheprovider --timeout=900 --junitxml="$d/j.xml" "$@" > "$d/t.log" 2>&1 )
  reg=$(/venv/bin/python - "$d/j.xml" <<'PY'
import json, sys, xml.etree.ElementTree as ET
base = set(json.load(open('/root/.vp/BASELINE.json'))['stable_pass'])
bad = [f"{tc.get('classname')}::{tc.get('name')}" for tc in ET.parse(sys.argv[1]).getroot().iter('testcase') if any(ch.tag in ('failure','error') for ch in tc) and f"{tc.get('classname')}::{tc.get('name')}" in base]
print(len(bad), bad[:3])
PY
)
  echo "stable_pass regressions with the patch: $reg"
fi
cd "$here"
chk=${CHECK_PROP:-$prop}   # a change that breaks <prop> through a call history may be the business of another property's check
VF_OUT="$d/out" VERIF_REPO="$d/patched" ./check $chk quick > "$d/check.log" 2>&1; rc=$?
echo "check $chk quick on patched copy -> exit $rc :: $(grep -m2 'unlisted failure' $d/check.log | cut -c1-260 | tr '\n' '|')"
mkdir -p seeded/$id
cp "$src/patch$k.diff" seeded/$id/patch.diff; cp "$d/demo.py" seeded/$id/demo.py
[ -f "$src/note$k.txt" ] && cp "$src/note$k.txt" seeded/$id/note.txt
/venv/bin/python - "$id" "$prop" "$rc_clean" "$rc_patched" "$rc" "$reg" "$*" "$(grep -m3 'unlisted failure' $d/check.log | cut -c1-300)" "$chk" <<'PY'
import json, sys
id_, prop, rc_clean, rc_patched, rc, reg, tests, hits, chk = sys.argv[1:10]
note = ""
try: note = open(f"seeded/{id_}/note.txt").read()
except Exception: pass
json.dump({"id": id_, "breaks_property": prop, "needs_to_manifest": note.strip(),
  "confirmed": {"patch_applies_to_repo_head": True, "demo_exit_clean_tree": int(rc_clean), "demo_exit_patched_tree": int(rc_patched),
                "stable_pass_regressions_in_modules": reg, "test_modules_run": tests},
  "check": {"command": f"VERIF_REPO=<scratch copy with patch> ./check {chk} quick", "check_property": chk, "exit": int(rc), "caught": int(rc) == 1, "first_failures": hits.split("\n")},
  "history": __import__("os").environ.get("SEED_NOTE", "caught by the check as it stood when the change arrived"),
  "origin": "independent sub-agent given only the property text and a scratch worktree"}, open(f"seeded/{id_}/meta.json", "w"), indent=1)
PY
