#!/bin/bash
# tools/sweep.sh <tier> <seed> [props...] — run checks one after another, print one line per check (exit code, summary)
tier=$1; seed=$2; shift 2
props=${@:-C01 C02 C03 C04 C05 C06 C07 C08 C09 C10 C11 C12 C13 C14 C15 C16 C17 C18 C19 C20}
cd "$(dirname "$0")/.."
export VF_OUT=${VF_OUT:-$PWD/.sweep-out}
for p in $props; do
  start=$(date +%s)
  VERIF_SEED=$seed ./check $p $tier > .sweep-$p.log 2>&1; rc=$?
  echo "$p $tier seed=$seed rc=$rc $(( $(date +%s) - start ))s :: $(grep -c VIOLATION .sweep-$p.log) violation lines :: $(tail -1 .sweep-$p.log | cut -c1-160)"
  [ $rc -ne 0 ] && grep -B1 VIOLATION .sweep-$p.log | cut -c1-400 | head -12
done
