#!/venv/bin/python
"""Regenerates /verif/MANIFEST.json from the property modules (vf/props/cXX.py) so the two never drift."""
import importlib, json, os, sys
HERE = os.path.dirname(os.path.dirname(os.path.abspath(__file__)))
sys.path.insert(0, HERE)
props = [json.loads(l) for l in open(os.path.join(HERE, "properties.jsonl"))]
checks, na = [], []
for p in props:
    pid = p["id"]
    path = os.path.join(HERE, "vf", "props", pid.lower() + ".py")
    if not os.path.exists(path):
        na.append({"property_id": pid, "reason": "check not built yet in this session (planned in DESIGN.md section 2); the technique applies"})
        continue
    m = importlib.import_module(f"vf.props.{pid.lower()}")
    if not getattr(m, "CLAIM", True):
        na.append({"property_id": pid, "reason": m.NOT_CLAIMED_REASON})
        continue
    checks.append({
        "property_id": pid,
        "quick_cmd": f"./check {pid} quick",
        "thorough_cmd": f"./check {pid} thorough",
        "evidence_file": f"/verif/evidence/{pid}.json",
        "replay_cmd_template": f"./check {pid} --replay {{path}}",
        "engine": "vf",
        "level_claimed": {
            "category": "exploration",
            "text": getattr(m, "LEVEL_TEXT", "Generated-input search (Hypothesis strategies / exhaustive enumeration) against an independent reference oracle; finds counterexamples, never proves absence."),
            "design_ref": f"DESIGN.md section 2 ({pid}) and section 8",
        },
        "level_note": getattr(m, "LEVEL_NOTE", "; ".join(getattr(m, "ASSUMPTIONS", []))),
        "technique": getattr(m, "TECHNIQUE", "property-based testing (Hypothesis strategies / exhaustive enumeration) against a brute-force reference oracle"
                             + ("; thorough tier adds coverage-guided fuzzing (atheris/libFuzzer driving the same strategies through fuzz_one_input) on: "
                                + ", ".join(s_.name for s_ in m.SUBCHECKS if s_.fuzz.get("thorough")) if any(s_.fuzz.get("thorough") for s_ in m.SUBCHECKS) else "")),
    })
man = {
    "version": 1,
    "setup_cmd": "./setup.sh",
    "hooks": {
        "guard": "PGMPY_VERIF",
        "enable": "no hooks are needed: pgmpy is pure Python and every check imports it from /repo's working tree (VERIF_REPO overrides the path); nothing in /repo reads PGMPY_VERIF",
        "baseline_off_cmd": "cd /repo && /venv/bin/python -m pytest -ra -q -p no:cacheprovider --timeout=900 --continue-on-collection-errors",
        "source_commits": [],
        "add_only": True,
    },
    "engines": [{
        "name": "vf",
        "path": "/verif/vf",
        "serves_properties": [c["property_id"] for c in checks],
        "kind_free_text": "Hypothesis strategies over plain-data specs + exhaustive enumerators, sharded over 16 fresh interpreters with different PYTHONHASHSEED, independent brute-force oracles, collect-then-shrink, JSON replay files, known-findings matcher",
    }],
    "checks": checks,
    "not_applicable": na,
    "notes": "See DESIGN.md. ./check <Cxx> quick|thorough; ./check <Cxx> --replay <file>. Known findings: known_findings.json.",
}
json.dump(man, open(os.path.join(HERE, "MANIFEST.json"), "w"), indent=1)
print("claimed:", [c["property_id"] for c in checks], "not claimed:", [x["property_id"] for x in na])
