#!/bin/bash
# tools/mutants_all.sh [Cxx ...] — run every stored mutant (mutants/<Cxx>/*.diff) and every stored seeded change
# (seeded/<id>/patch.diff) against the quick tier of its property; one line each: KILLED (exit 1), SURVIVED (exit 0) or
# BROKEN (anything else).  A shard that hangs on a mutant is cut after VF_SHARD_TIMEOUT (default here 300 s).
cd "$(dirname "$0")/.."
export VF_SHARD_TIMEOUT=${VF_SHARD_TIMEOUT:-300}
props=${@:-C01 C02 C03 C04 C05 C06 C07 C08 C09 C10 C11 C12 C13 C14 C15 C16 C17 C18 C19 C20}
k=0; s=0; b=0
for p in $props; do
  for m in mutants/$p/*.diff seeded/$p-*/patch.diff; do
    [ -f "$m" ] || continue
    chk=$p
    case "$m" in seeded/*) cp_=$(/venv/bin/python -c "import json,sys; print(json.load(open(sys.argv[1])).get('check',{}).get('check_property',''))" "$(dirname "$m")/meta.json" 2>/dev/null); [ -n "$cp_" ] && chk=$cp_;; esac
    tools/mutant.sh "$m" $chk quick > /tmp/vf-mutall.$$.log 2>&1; rc=$?
    name=$m
    case $rc in
      1) k=$((k+1)); echo "KILLED   $p $name";;
      0) s=$((s+1)); echo "SURVIVED $p $name";;
      *) b=$((b+1)); echo "BROKEN($rc) $p $name :: $(tail -2 /tmp/vf-mutall.$$.log | tr '\n' ' ' | cut -c1-200)";;
    esac
  done
done
rm -f /tmp/vf-mutall.$$.log
echo "mutants: killed=$k survived=$s broken=$b"
