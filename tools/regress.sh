#!/bin/bash
# tools/regress.sh <pytest paths...> — run some test modules of /repo and list stable_pass tests that do not pass (regressions only).
d=$(mktemp -d /tmp/vf-reg-XXXXXX); trap 'rm -rf "$d"' EXIT
cd /repo && /venv/bin/python -m pytest -q -p no:cacheprovider --timeout=900 --junitxml="$d/j.xml" "$@" > "$d/log" 2>&1
tail -1 "$d/log"
/venv/bin/python - "$d/j.xml" <<'PY'
import json, sys, xml.etree.ElementTree as ET
base = set(json.load(open('/root/.vp/BASELINE.json'))['stable_pass'])
bad = []
for tc in ET.parse(sys.argv[1]).getroot().iter('testcase'):
    name = f"{tc.get('classname')}::{tc.get('name')}"
    if any(ch.tag in ('failure', 'error') for ch in tc) and name in base:
        bad.append(name)
print("REGRESSIONS:", len(bad))
for b in bad: print("  ", b)
PY
