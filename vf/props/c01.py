"""C01 — exact posterior queries equal the conditional of the CPD-product joint."""
from hypothesis import strategies as st

from .. import gen
from ..core import RAISED, Sub
from ..oracle.joint import Joint, compare_named
from ..spec import build_bn, build_cpd, factor_to_named

RULE = (
    "cases = Hypothesis-generated Bayesian-network specs (1-6 nodes, all name/state-name kinds, CPD columns "
    "with zeros/one-hot/tiny entries, declared parent order permuted) x query subset x constructed "
    "positive-probability hard evidence x virtual evidence; every case is evaluated under 7 elimination "
    "options x joint in {True,False} and compared, by named assignment, with the brute-force CPD-product "
    "joint. non-trivial = >=3 nodes, >=2 edges, at least one eliminated variable and (hard or virtual) "
    "evidence present; distinct = distinct sha1 of the canonical case JSON."
)
ASSUMPTIONS = [
    "P(evidence) > 0 by construction (evidence projected from an assignment in the joint's support)",
    "explicit elimination orders are complete permutations of the non-query, non-evidence variables",
    "virtual evidence is given as TabularCPD carrying the model's state names, on string-named variables",
    "float comparison: |a-b| <= 1e-9 + 1e-9*max(|a|,|b|)",
]

ELIM = ["greedy", "MinFill", "MinNeighbors", "MinWeight", "WeightedMinFill", None, "explicit"]


@st.composite
def query_case(draw, max_nodes=6, name_kinds=("str", "word", "int", "tuple"), allow_virtual=True):
    spec = draw(gen.bn_spec(max_nodes=max_nodes, name_kinds=name_kinds, latents=True))
    nodes = spec["nodes"]
    twins = None
    if len(nodes) >= 2 and len(nodes) <= 5 and draw(st.integers(0, 5)) == 0:
        # "identical sensors": two extra leaves with the same CPD under a common parent, both observed in the same state
        h = nodes[draw(st.integers(0, len(nodes) - 1))]
        new = {"str": ["S1", "S2"], "word": ["sens1", "sens2"], "kw": ["S1", "S2"], "int": [90, 91], "tuple": [("s", 1), ("s", 2)]}[spec["name_kind"]]
        kh = spec["card"][nodes.index(h)]
        cols = [draw(gen.column(2, ("dense", "dense", "zeros"))) for _ in range(kh)]
        table = [[cols[j][i] for j in range(kh)] for i in range(2)]
        for t in new:
            spec["nodes"].append(t)
            spec["card"].append(2)
            spec["states"].append(["lo", "hi"])
            spec["edges"].append([h, t])
            spec["cpds"].append({"var": t, "parents": [h], "table": [list(r) for r in table]})
        spec["explicit_states"] = True
        spec["has_twin_cpds"] = True
        twins = (h, new)
        nodes = spec["nodes"]
    n = len(nodes)
    J = Joint.from_bn(spec)
    support = sorted(J.support_assignments())
    if twins:
        same = [x for x in support if x[J.idx[twins[1][0]]] == x[J.idx[twins[1][1]]]]
        support = same or support
    a = support[draw(st.integers(0, len(support) - 1))]
    order = list(draw(st.permutations(nodes)))
    if twins:
        # query something that is neither the common parent nor a sensor (when there is such a node); observe both sensors
        others = [v for v in order if v not in twins[1] and v != twins[0]]
        order = (others[:1] or [twins[0]]) + [v for v in order if v not in twins[1] and v not in others[:1] and v != twins[0]] + ([twins[0]] if others[:1] else [])
        nq = 1
        query = order[:1]
        rest = list(twins[1]) + [v for v in order[1:] if v != twins[0]]
        ne = draw(st.integers(2, max(2, len(rest))))
        ev_vars = rest[:ne]
    else:
        nq = draw(st.integers(1, min(3, n)))
        query = order[:nq]
        rest = order[nq:]
        ne = draw(st.integers(0, len(rest)))
        ev_vars = rest[:ne]
    evidence = [[v, spec["states"][J.idx[v]][a[J.idx[v]]]] for v in ev_vars]
    virtual = []
    if allow_virtual and spec["name_kind"] in ("str", "word", "kw"):
        cand = rest[ne:] + (query if draw(st.integers(0, 3)) == 0 else [])
        for v in cand[: draw(st.integers(0, 2))]:
            k = spec["card"][J.idx[v]]
            lik = [draw(st.sampled_from([0.0, 1.0, 0.5, 0.25, 0.9, 0.01])) for _ in range(k)]
            if lik[a[J.idx[v]]] == 0.0:
                lik[a[J.idx[v]]] = draw(st.sampled_from([1.0, 0.3, 1e-6]))
            virtual.append([v, lik])
    elim_vars = [v for v in nodes if v not in query and v not in ev_vars]
    explicit = list(draw(st.permutations(elim_vars)))
    return {"spec": spec, "query": query, "evidence": evidence, "virtual": virtual, "explicit_order": explicit}


def _virtual_cpds(spec, virtual):
    from pgmpy.factors.discrete import TabularCPD

    out = []
    idx = {v: i for i, v in enumerate(spec["nodes"])}
    for v, lik in virtual:
        out.append(
            TabularCPD(v, spec["card"][idx[v]], [[x] for x in lik], state_names={v: list(spec["states"][idx[v]])})
        )
    return out


def ancestors(spec, targets):
    par = {v: [] for v in spec["nodes"]}
    for u, v in spec["edges"]:
        par[v].append(u)
    seen = set()
    stack = list(targets)
    while stack:
        x = stack.pop()
        if x in seen:
            continue
        seen.add(x)
        stack.extend(par[x])
    return seen


def check_query(case, out):
    from pgmpy.inference import VariableElimination

    spec = case["spec"]
    query = case["query"]
    evidence = {v: s for v, s in case["evidence"]}
    virtual = case["virtual"]
    J = Joint.from_bn(spec)
    want = J.marginal(query, evidence, [(v, lik) for v, lik in virtual])
    idx = J.idx

    n_elim = len(spec["nodes"]) - len(query) - len(evidence)
    out.nontrivial = len(spec["nodes"]) >= 3 and len(spec["edges"]) >= 2 and n_elim >= 1 and bool(evidence or virtual)
    out.cls(f"names_{spec['name_kind']}", f"shape_{spec['shape']}", f"n{len(spec['nodes'])}")
    if spec.get("latents"):
        out.cls("declares_latents")
    if spec.get("has_twin_cpds"):
        out.cls("twin_cpds")
    if evidence:
        out.cls("hard_evidence")
    if virtual:
        out.cls("virtual_evidence")
    if any(c == 1 for c in spec["card"]):
        out.cls("card1")
    if any(x == 0.0 for c in spec["cpds"] for row in c["table"] for x in row):
        out.cls("zero_entries")
    if set(spec["nodes"]) - ancestors(spec, list(query) + list(evidence)):
        out.cls("has_barren_nodes")
    if any(spec["states"][i] != list(range(spec["card"][i])) for i in range(len(spec["nodes"]))):
        out.cls("nondefault_state_names")

    model = out.call("build", build_bn, spec)
    if model is RAISED:
        return
    if out.call("check_model", model.check_model) is RAISED:
        return
    out.evals = 0
    answers = {}
    for elim in ELIM:
        eo = case["explicit_order"] if elim == "explicit" else elim
        for joint in (True, False):
            tag = f"ve[{elim},joint={joint}]"
            ve = out.call("engine", VariableElimination, model)
            if ve is RAISED:
                return
            kw = dict(variables=list(query), evidence=dict(evidence) or None, elimination_order=eo, joint=joint, show_progress=False)
            if virtual:
                kw["virtual_evidence"] = _virtual_cpds(spec, virtual)
            res = out.call(tag, ve.query, **kw)
            out.evals += 1
            if res is RAISED:
                continue
            if joint:
                if set(res.variables) != set(query) or len(res.variables) != len(query):
                    out.fail(f"{tag}:scope", f"scope {res.variables} != requested {query}")
                    continue
                for v in query:
                    if list(res.state_names[v]) != list(spec["states"][idx[v]]):
                        out.fail(f"{tag}:state_names", f"{v}: {res.state_names[v]} != {spec['states'][idx[v]]}")
                got = factor_to_named(res)
                d = compare_named(got, want)
                if d:
                    out.fail(f"{tag}:value", d)
            else:
                if not isinstance(res, dict) or set(res.keys()) != set(query):
                    out.fail(f"{tag}:keys", f"{type(res)} keys {list(res) if isinstance(res, dict) else None}")
                    continue
                for v in query:
                    f = res[v]
                    if list(f.variables) != [v]:
                        out.fail(f"{tag}:scope", f"factor for {v} has scope {f.variables}")
                        continue
                    if list(f.state_names[v]) != list(spec["states"][idx[v]]):
                        out.fail(f"{tag}:state_names", f"{v}: {f.state_names[v]}")
                    wv = J.marginal([v], evidence, [(x, lik) for x, lik in virtual])
                    d = compare_named(factor_to_named(f), wv)
                    if d:
                        out.fail(f"{tag}:value", d)
    out.sample = {"nodes": spec["nodes"], "edges": spec["edges"], "card": spec["card"], "query": query,
                  "evidence": case["evidence"], "virtual": virtual}


def check_state_prob(case, out):
    """BayesianNetwork.get_state_probability(partial assignment) equals the reference marginal."""
    spec = case["spec"]
    J = Joint.from_bn(spec)
    model = out.call("build", build_bn, spec)
    if model is RAISED:
        return
    assign = {v: s for v, s in case["evidence"]}
    for v in case["query"][:1]:
        assign[v] = spec["states"][J.idx[v]][0]
    out.nontrivial = len(spec["nodes"]) >= 3 and len(spec["edges"]) >= 2 and 0 < len(assign) < len(spec["nodes"])
    out.cls(f"names_{spec['name_kind']}")
    want = J.prob(assign)
    got = out.call("get_state_probability", model.get_state_probability, dict(assign))
    if got is RAISED:
        return
    if not abs(float(got) - want) <= 1e-9 + 1e-9 * abs(want):
        out.fail("get_state_probability:value", f"P({assign}) got {got!r} want {want!r}")


THOROUGH_SCALE = 3  # thorough-tier example counts are n["thorough"] x this (one thorough run then takes roughly 5-10 minutes on 16 cores)
SUBCHECKS = [
    Sub(
        "ve_query",
        check_query,
        strategy=lambda tier: query_case(),
        n={"quick": 220, "thorough": 4000},
        shards={"quick": 12, "thorough": 16},
        fuzz={"thorough": (2, 300)},
        doc="VariableElimination.query under 7 elimination options x joint in {T,F} vs brute-force joint "
        "(values by named assignment, scope, state names)",
    ),
    Sub(
        "state_prob",
        check_state_prob,
        strategy=lambda tier: query_case(allow_virtual=False),
        n={"quick": 150, "thorough": 2000},
        shards={"quick": 4, "thorough": 8},
        doc="BayesianNetwork.get_state_probability vs reference marginal",
    ),
]

PREDICATES = {}
