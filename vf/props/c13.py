"""C13 — interventions follow the truncated factorisation."""
import itertools

from hypothesis import strategies as st

from .. import gen
from ..core import RAISED, Sub
from ..oracle import causal as OCA
from ..oracle.dsep import G
from ..oracle.joint import Joint, compare_named
from ..spec import build_bn, build_dag, factor_to_named

RULE = (
    "do(): Hypothesis Bayesian-network specs (2-6 nodes, all node-name kinds, latents) x do-sets of size 1-2 x "
    "inplace in {T,F}, compared structurally and CPD-by-CPD (named assignments) with the definition; "
    "do-queries: strictly positive networks (3-6 string-named nodes, optional latents) x do-sets (single, "
    "pairs incl. parent-child) x query sets x {ve,bp} x {default adjustment, every reference-valid back-door "
    "set}, oracle = brute-force truncated factorisation; criteria: every labelled DAG on n<=4 (quick) / n<=5 "
    "(thorough) nodes x ordered (X,Y) x every Z among observed non-descendants of X x latent subsets (none, every single node, one rotating pair), "
    "oracle = enumeration of back-door / front-door paths. non-trivial = treatment has a parent that reaches "
    "the outcome avoiding the treatment (confounding) and the outcome is a descendant of the treatment; "
    "enumerated DAGs are distinct by construction, generated cases by sha1."
)
ASSUMPTIONS = [
    "do-queries use strictly positive CPDs (adjustment formulas need P(x,z) > 0) and string variable names",
    "query variables are disjoint from the do-set and from the adjustment set in use (the engine refuses others)",
    "candidate sets Z for the validity tests are observed non-descendants of X not containing X or Y",
    "front-door: only the direction 'enumerated by the engine => satisfies the criterion on paths' is asserted",
    "belief propagation back-end is used only when the moral graph is connected",
]
EXHAUSTIVE = {
    "quick": "all labelled DAGs n<=4 x (X,Y) x Z subsets of non-descendants for the adjustment criteria",
    "thorough": "all labelled DAGs n<=5 x (X,Y) x Z subsets of non-descendants for the adjustment criteria",
}


# ------------------------------------------------------------------------------------------ do(): structure
@st.composite
def do_case(draw):
    spec = draw(gen.bn_spec(min_nodes=2, max_nodes=6, latents=True))
    nodes = spec["nodes"]
    k = draw(st.integers(1, min(2, len(nodes))))
    mode = draw(st.sampled_from(["any", "parent_child"]))
    if mode == "parent_child" and spec["edges"] and k == 2:
        e = spec["edges"][draw(st.integers(0, len(spec["edges"]) - 1))]
        do = list(e)
    else:
        do = list(draw(st.permutations(nodes)))[:k]
    return {"spec": spec, "do": do, "inplace": draw(st.booleans()), "cls": draw(st.sampled_from(["BN", "DAG"]))}


def _cpd_named(cpd):
    """{(child_state, frozenset((parent, state)...)): p} using the CPD's own labels"""
    import numpy as np

    vars_ = list(cpd.variables)
    vals = np.asarray(cpd.values, dtype=float)
    out = {}
    names = [cpd.state_names[v] for v in vars_]
    for idxs in itertools.product(*[range(len(s)) for s in names]):
        key = (names[0][idxs[0]], frozenset((v, names[i][j]) for i, (v, j) in enumerate(zip(vars_, idxs)) if i > 0))
        out[key] = float(vals[idxs])
    return out


def check_do(case, out):
    spec, do = case["spec"], case["do"]
    nodes = spec["nodes"]
    g = G(nodes, spec["edges"])
    want_edges = {(u, v) for u, v in g.edges if v not in do}
    out.nontrivial = any(g.pa[x] and g.ch[x] for x in do)
    out.cls(f"names_{spec['name_kind']}", f"do{len(do)}", "inplace" if case["inplace"] else "copy", case["cls"])
    if len(do) == 2 and (tuple(do) in set(g.edges) or tuple(reversed(do)) in set(g.edges)):
        out.cls("parent_child_pair")
    if case["cls"] == "DAG":
        dag = out.call("build", build_dag, spec)
        if dag is RAISED:
            return
        res = out.call("DAG.do", dag.do, list(do), inplace=case["inplace"])
        if res is RAISED:
            return
        if set(res.edges()) != want_edges or set(res.nodes()) != set(nodes):
            out.fail("DAG.do:structure", f"do={do} got={sorted(res.edges(), key=repr)} want={sorted(want_edges, key=repr)}")
        if set(getattr(res, "latents", set())) != set(spec["latents"]):
            out.fail("DAG.do:latents", f"{getattr(res, 'latents', None)} vs {spec['latents']}")
        if not case["inplace"] and (set(dag.edges()) != set(g.edges) or res is dag):
            out.fail("DAG.do:mutated_original", f"do={do}")
        if case["inplace"] and res is not dag:
            out.fail("DAG.do:inplace_returned_other_object", "")
        return
    model = out.call("build", build_bn, spec)
    if model is RAISED:
        return
    before = {c.variable: (_cpd_named(c), list(c.variables), {v: list(s) for v, s in c.state_names.items()}) for c in model.get_cpds()}
    arg = list(do)
    if len(do) == 1 and spec["name_kind"] in ("str", "word", "int") and len(str(do[0])) % 2:
        arg = do[0]  # documented single-node form
    res = out.call("BN.do", model.do, arg, inplace=case["inplace"])
    if res is RAISED:
        return
    if set(res.edges()) != want_edges or set(res.nodes()) != set(nodes):
        out.fail("BN.do:structure", f"do={do} got={sorted(res.edges(), key=repr)} want={sorted(want_edges, key=repr)}")
        return
    if set(res.latents) != set(spec["latents"]):
        out.fail("BN.do:latents", f"{res.latents} vs {spec['latents']}")
    for v in nodes:
        c = res.get_cpds(v)
        if c is None:
            out.fail("BN.do:cpd_missing", f"{v!r}")
            continue
        idx = nodes.index(v)
        if v in do:
            if list(c.variables) != [v]:
                out.fail("BN.do:do_cpd_has_parents", f"{v!r}: {c.variables}")
                continue
            vals = [float(x) for x in c.get_values().ravel()]
            if abs(sum(vals) - 1) > 1e-9 or min(vals) < 0:
                out.fail("BN.do:do_cpd_not_distribution", f"{v!r}: {vals}")
            if list(c.state_names[v]) != list(spec["states"][idx]):
                out.fail("BN.do:do_cpd_state_names", f"{v!r}: {c.state_names[v]} vs {spec['states'][idx]}")
        else:
            b = before[v]
            d = compare_named_cpd(_cpd_named(c), b[0])
            if d or set(c.variables) != set(b[1]) or {k: list(s) for k, s in c.state_names.items()} != b[2]:
                out.fail("BN.do:other_cpd_changed", f"{v!r}: {d} vars {c.variables} vs {b[1]}")
    r = out.call("BN.do:check_model", res.check_model)
    if not case["inplace"]:
        if res is model or set(model.edges()) != set(g.edges):
            out.fail("BN.do:mutated_original_structure", f"do={do}")
        for c in model.get_cpds():
            b = before[c.variable]
            if compare_named_cpd(_cpd_named(c), b[0]) or list(c.variables) != b[1]:
                out.fail("BN.do:mutated_original_cpd", f"{c.variable!r}")
    elif res is not model:
        out.fail("BN.do:inplace_returned_other_object", "")
    out.sample = {"edges": spec["edges"], "do": do, "inplace": case["inplace"]}


def compare_named_cpd(got, want):
    if set(got) != set(want):
        return "assignment sets differ"
    for k in want:
        if abs(got[k] - want[k]) > 1e-12:
            return f"value {got[k]} vs {want[k]} at {k}"
    return None


# ------------------------------------------------------------------------------------------ do-queries
@st.composite
def query_case(draw):
    spec = draw(gen.bn_spec(min_nodes=3, max_nodes=6, name_kinds=("str", "word"), latents=True, min_card=2,
                            col_kinds=("dense",), state_kinds=("range", "offset", "perm", "str", "mixed")))
    nodes = spec["nodes"]
    g = G(nodes, spec["edges"])
    mode = draw(st.sampled_from(["single", "single", "pair", "parent_child"]))
    order = list(draw(st.permutations(nodes)))
    if mode == "parent_child" and spec["edges"]:
        do_vars = list(spec["edges"][draw(st.integers(0, len(spec["edges"]) - 1))])
    elif mode == "pair":
        do_vars = order[:2]
    else:
        # prefer a treatment that has parents and descendants
        cands = [v for v in order if g.pa[v] and g.ch[v]] or order
        do_vars = [cands[0]]
    idx = {v: i for i, v in enumerate(nodes)}
    do = [[v, spec["states"][idx[v]][draw(st.integers(0, spec["card"][idx[v]] - 1))]] for v in do_vars]
    blocked = set(do_vars)
    for v in do_vars:
        blocked |= g.pa[v]
    cand = [v for v in order if v not in blocked]
    # prefer descendants of the treatment as outcomes
    desc = set().union(*[g.descendants(v) for v in do_vars])
    cand.sort(key=lambda v: v not in desc)
    nq = draw(st.integers(1, 2))
    query = cand[:nq]
    return {"spec": spec, "do": do, "query": query, "algo": draw(st.sampled_from(["ve", "ve", "bp"]))}


def _connected_moral(g):
    und = {v: set() for v in g.nodes}
    for e in g.moral_edges():
        a, b = tuple(e)
        und[a].add(b)
        und[b].add(a)
    seen = {g.nodes[0]}
    stack = [g.nodes[0]]
    while stack:
        u = stack.pop()
        for w in und[u]:
            if w not in seen:
                seen.add(w)
                stack.append(w)
    return len(seen) == len(g.nodes)


def check_query(case, out):
    from pgmpy.inference import CausalInference

    spec = case["spec"]
    nodes = spec["nodes"]
    g = G(nodes, spec["edges"])
    idx = {v: i for i, v in enumerate(nodes)}
    do = {v: s for v, s in case["do"]}
    query = case["query"]
    out.evals = 0
    if not query:
        out.cls("no_admissible_query")
        return
    lat = set(spec["latents"])
    do_idx = {v: spec["states"][idx[v]].index(s) for v, s in do.items()}
    want = Joint.from_bn(spec, do=do_idx).marginal(query)
    algo = case["algo"] if _connected_moral(g) else "ve"
    out.cls(f"algo_{algo}", f"do{len(do)}")
    dv = list(do)
    if len(dv) == 2 and (dv[1] in g.ch[dv[0]] or dv[0] in g.ch[dv[1]]):
        out.cls("parent_child_pair")
    confounded = any(
        any(y in (g.reachable(p, [x]) | {p}) for p in g.pa[x]) and y in g.descendants(x) for x in dv for y in query
    )
    out.nontrivial = confounded
    if confounded:
        out.cls("confounded_descendant_outcome")
    model = out.call("build", build_bn, spec)
    if model is RAISED:
        return
    ci = out.call("CausalInference", CausalInference, model)
    if ci is RAISED:
        return
    parents = set().union(*[g.pa[v] for v in dv])
    # ---- default adjustment set
    if parents & lat:
        out.cls("latent_parent_refused")
        out.expect_raise("query[default]:latent_parent", ci.query, list(query), do=dict(do), inference_algo=algo, show_progress=False, exc=ValueError)
    else:
        res = out.call("query[default]", ci.query, list(query), do=dict(do), inference_algo=algo, show_progress=False)
        out.evals += 1
        if res is not RAISED:
            tag = "query[default]"
            if len(dv) > 1:
                # known defect class: a parent of one do-variable is itself intervened on, or is a descendant of
                # another do-variable (then sum_z P(y|x,z)P(z) over the parents is not the truncated factorisation)
                others_desc = {v: set().union(*[g.descendants(w) | {w} for w in dv if w != v]) for v in dv}
                entangled = any(g.pa[v] & others_desc[v] for v in dv)
                tag += "[multi_do:entangled_parents]" if entangled else "[multi_do]"
            _cmp(out, tag, res, query, want, spec, idx)
    # ---- explicit, reference-certified back-door sets (single treatment)
    if len(dv) == 1:
        x = dv[0]
        cands = [v for v in nodes if v != x and v not in query and v not in lat and v not in g.descendants(x)]
        n_used = 0
        for r in range(len(cands) + 1):
            for Z in itertools.combinations(cands, r):
                if n_used >= 4:
                    break
                if OCA.backdoor_ok(g, x, query, Z):
                    n_used += 1
                    res = out.call("query[adjustment_set]", ci.query, list(query), do=dict(do), adjustment_set=set(Z), inference_algo=algo, show_progress=False)
                    out.evals += 1
                    if res is not RAISED:
                        _cmp(out, "query[adjustment_set]", res, query, want, spec, idx, extra=f" Z={Z}")
        if n_used:
            out.cls("explicit_backdoor_set_used")
    out.sample = {"edges": spec["edges"], "latents": spec["latents"], "do": case["do"], "query": query, "algo": algo}


def _cmp(out, tag, res, query, want, spec, idx, extra=""):
    if set(res.variables) != set(query):
        out.fail(f"{tag}:scope", f"{res.variables} vs {query}")
        return
    for v in query:
        if list(res.state_names[v]) != list(spec["states"][idx[v]]):
            out.fail(f"{tag}:state_names", f"{v}: {res.state_names[v]}")
            return
    d = compare_named(factor_to_named(res), want, rtol=1e-8, atol=1e-9)
    if d:
        out.fail(f"{tag}:value", d + extra + f" edges={spec['edges']}")


# ------------------------------------------------------------------------------------------ criteria
NAMES = ["A", "B", "C", "D", "E"]


def _latent_masks(n, gi):
    """latent subsets tried per DAG: none, every single node (n <= 4; two rotating ones for n = 5) and one rotating
    pair - a latent can be a confounder, a mediator or a collider depending on the DAG, and all DAGs are enumerated"""
    if n <= 2:
        return [0]
    singles = [1 << k for k in range(n)]
    if n == 5:
        singles = [singles[gi % 5], singles[(gi // 5 + 1 + gi) % 5]]
    pairs = [(1 << a) | (1 << b) for a in range(n) for b in range(a + 1, n)]
    out = [0] + sorted(set(singles))
    if n >= 4:
        out.append(pairs[(gi * 2654435761) % len(pairs)])
    return out


def _enum_criteria(tier):
    ns = [2, 3, 4] if tier == "quick" else [2, 3, 4, 5]
    index = []
    gi = 0
    for n in ns:
        for i in range(len(gen.all_dags(n))):
            for m in _latent_masks(n, gi):
                index.append((n, i, m))
            gi += 1

    def it(lo, hi):
        for k in range(lo, hi):
            n, i, m = index[k]
            lat = [NAMES[b] for b in range(n) if (m >> b) & 1]
            yield {"nodes": NAMES[:n], "edges": [[NAMES[u], NAMES[v]] for u, v in gen.all_dags(n)[i]], "latents": lat}

    return len(index), it


@st.composite
def criteria_case(draw):
    """larger DAGs (5-6 nodes) than the enumeration reaches in the quick tier, with latents placed by role: mediators
    (a parent and a child), confounders (two children) or arbitrary nodes"""
    n = draw(st.sampled_from([5, 6, 5]))
    names = (NAMES + ["F"])[:n]
    topo = list(draw(st.permutations(names)))
    edges = [[topo[i], topo[j]] for j in range(n) for i in range(j) if draw(st.integers(0, 4)) < 2]
    indeg = {v: sum(1 for e in edges if e[1] == v) for v in names}
    outdeg = {v: sum(1 for e in edges if e[0] == v) for v in names}
    role = draw(st.sampled_from(["all_children_of_a_node", "mediator", "all_children_of_a_node", "confounder", "any", "none"]))
    if role == "all_children_of_a_node":
        # every child of some node with parents is latent: its further descendants are reached through latents only
        cand = [v for v in names if indeg[v] and 1 <= outdeg[v] <= 2] or [v for v in names if 1 <= outdeg[v] <= 2]
        if cand:
            x = cand[draw(st.integers(0, len(cand) - 1))]
            lat = sorted(e[1] for e in edges if e[0] == x)
        else:
            lat = []
    else:
        pool = {"mediator": [v for v in names if indeg[v] and outdeg[v]], "confounder": [v for v in names if outdeg[v] >= 2],
                "any": list(names), "none": []}[role]
        k = min(len(pool), draw(st.integers(1, 2)))
        lat = sorted(list(draw(st.permutations(pool)))[:k]) if pool else []
    return {"nodes": names, "edges": edges, "latents": lat, "latent_role": role}


def _subsets(items):
    for r in range(len(items) + 1):
        yield from itertools.combinations(items, r)


def check_criteria(case, out):
    from pgmpy.inference import CausalInference

    nodes, lat = case["nodes"], set(case["latents"])
    g = G(nodes, case["edges"])
    out.evals = 0
    model = out.call("build", build_bn, {"nodes": nodes, "edges": case["edges"], "latents": list(lat)}, with_cpds=False)
    if model is RAISED:
        return
    ci = out.call("CausalInference", CausalInference, model)
    if ci is RAISED:
        return
    if lat:
        out.cls("with_latents")
        if any(g.pa[v] and g.ch[v] for v in lat):
            out.cls("latent_mediator")
    obs = [v for v in nodes if v not in lat]
    for x, y in itertools.permutations(obs, 2):
        nondesc = [v for v in obs if v not in (x, y) and v not in g.descendants(x)]
        if g.pa[x] and y in g.descendants(x):
            out.nontrivial = True
        for Z in _subsets(nondesc):
            want = OCA.backdoor_ok(g, x, [y], Z)
            got = out.call("is_valid_backdoor_adjustment_set", ci.is_valid_backdoor_adjustment_set, x, y, list(Z))
            out.evals += 1
            if got is not RAISED and bool(got) != want:
                out.fail(f"is_valid_backdoor_adjustment_set:{'false_positive' if got else 'false_negative'}", f"edges={case['edges']} X={x} Y={y} Z={Z}")
            got = out.call("is_valid_adjustment_set", ci.is_valid_adjustment_set, [x], [y], list(Z))
            out.evals += 1
            if got is not RAISED and bool(got) != want:
                out.fail(f"is_valid_adjustment_set:{'false_positive' if got else 'false_negative'}", f"edges={case['edges']} X={x} Y={y} Z={Z}")
        # enumerated back-door sets
        try:
            sets = ci.get_all_backdoor_adjustment_sets(x, y)
            raised = None
        except ValueError as e:
            sets, raised = None, e
        except Exception as e:  # noqa: BLE001
            out.fail(f"get_all_backdoor_adjustment_sets:raised {type(e).__name__}", f"{e} edges={case['edges']} X={x} Y={y}")
            sets, raised = None, e
        out.evals += 1
        any_valid = any(OCA.backdoor_ok(g, x, [y], Z) for Z in _subsets(nondesc))
        if sets is None:
            if any_valid and isinstance(raised, ValueError):
                out.fail("get_all_backdoor_adjustment_sets:none_found_but_exists", f"edges={case['edges']} latents={sorted(lat)} X={x} Y={y}")
        else:
            for Z in (sets if len(sets) else [frozenset()]):
                if set(Z) & lat:
                    out.fail("get_all_backdoor_adjustment_sets:contains_latent", f"edges={case['edges']} X={x} Y={y} Z={set(Z)}")
                elif not OCA.backdoor_ok(g, x, [y], Z):
                    out.fail("get_all_backdoor_adjustment_sets:invalid_set", f"edges={case['edges']} latents={sorted(lat)} X={x} Y={y} Z={set(Z)}")
        # enumerated front-door sets
        fs = out.call("get_all_frontdoor_adjustment_sets", ci.get_all_frontdoor_adjustment_sets, x, y)
        out.evals += 1
        if fs is not RAISED:
            for Z in fs:
                if set(Z) & lat:
                    out.fail("get_all_frontdoor_adjustment_sets:contains_latent", f"edges={case['edges']} X={x} Y={y} Z={set(Z)}")
                elif not OCA.frontdoor_ok(g, x, y, Z):
                    out.fail("get_all_frontdoor_adjustment_sets:invalid_set", f"edges={case['edges']} latents={sorted(lat)} X={x} Y={y} Z={set(Z)}")
        # minimal adjustment set
        if not g.adjacent(x, y) or y in g.ch[x]:
            ms = out.call("get_minimal_adjustment_set", ci.get_minimal_adjustment_set, x, y)
            out.evals += 1
            if ms is not RAISED and ms is not None:
                ms = set(ms)
                if ms & lat:
                    out.fail("get_minimal_adjustment_set:contains_latent", f"edges={case['edges']} latents={sorted(lat)} X={x} Y={y} Z={ms}")
                elif not OCA.backdoor_ok(g, x, [y], ms):
                    lab = "get_minimal_adjustment_set:invalid_set"
                    if ms & g.descendants(x):
                        lab += "[contains_descendant_of_treatment]"
                    out.fail(lab, f"edges={case['edges']} latents={sorted(lat)} X={x} Y={y} Z={ms}")
    out.sample = {"edges": case["edges"], "latents": sorted(lat)}


THOROUGH_SCALE = 2  # thorough-tier example counts are n["thorough"] x this (one thorough run then takes roughly 5-10 minutes on 16 cores)
SUBCHECKS = [
    Sub("do_structure", check_do, strategy=lambda tier: do_case(), n={"quick": 150, "thorough": 2000},
        shards={"quick": 4, "thorough": 8}, doc="BayesianNetwork.do / DAG.do: edges, CPDs of intervened nodes parent-free, other CPDs untouched, original untouched when not in place"),
    Sub("do_query", check_query, strategy=lambda tier: query_case(), n={"quick": 120, "thorough": 1500},
        shards={"quick": 8, "thorough": 16}, doc="CausalInference.query(do=...) with default and reference-valid adjustment sets, ve/bp, vs truncated factorisation"),
    Sub("criteria_sampled", check_criteria, strategy=lambda tier: criteria_case(), n={"quick": 120, "thorough": 2000},
        shards={"quick": 8, "thorough": 16}, doc="the same criteria checks on generated 5-6 node DAGs with latents placed as mediators / confounders"),
    Sub("criteria", check_criteria, enumerate=_enum_criteria, shards={"quick": 8, "thorough": 16},
        doc="is_valid_backdoor_adjustment_set / is_valid_adjustment_set / get_all_backdoor / get_all_frontdoor / get_minimal_adjustment_set vs path enumeration on every small DAG"),
]
PREDICATES = {}
