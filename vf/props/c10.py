"""C10 — structure scores equal their published definitions."""
import itertools

from hypothesis import strategies as st

from .. import gen
from ..core import RAISED, Sub
from ..oracle import counts as OC
from ..oracle import scores as OS
from ..oracle.dsep import G
from ..spec import build_frame, frame_state_names
from .c06 import dag_over

RULE = (
    "cases = a discrete data frame (2-5 columns, 1-60 rows, cards 1-4, sparse and dense, declared states that "
    "never occur, int/categorical/object columns) x every (variable, parent set of size <= 3) x the five "
    "scoring classes (K2, BDeu, BDs, BIC, AIC; equivalent sample size in [0.5, 50]); network score = sum of "
    "local scores + structure prior; ScoreCache (cold, warm, tiny max_size) vs its base scorer; "
    "metrics.structure_score; pairs of Markov-equivalent DAGs built by covered-edge reversals (BDeu/BIC/AIC must "
    "agree); row- and parent-order permutations. Oracle = closed forms over explicit counts with math.lgamma "
    "(self-tested against sequential Dirichlet-multinomial prediction). non-trivial = child cardinality >= 3, "
    ">= 1 parent and an unobserved parent configuration or an unobserved declared state."
)
ASSUMPTIONS = [
    "BDs follows Scutari (2016): alpha = ess/q~, beta = ess/(q~ r) with q~ the number of observed parent configurations",
    "BIC/AIC penalties use the declared numbers of states and parent configurations",
    "scores compared with 1e-8 relative / 1e-8 absolute tolerance",
]
SCORES = ["k2", "bdeu", "bds", "bic", "aic"]


def _score_obj(name, df, sn, ess):
    from pgmpy.estimators import AICScore, BDeuScore, BDsScore, BicScore, K2Score

    kw = {"state_names": sn} if sn else {}
    if name == "k2":
        return K2Score(df, **kw)
    if name == "bdeu":
        return BDeuScore(df, equivalent_sample_size=ess, **kw)
    if name == "bds":
        return BDsScore(df, equivalent_sample_size=ess, **kw)
    if name == "bic":
        return BicScore(df, **kw)
    return AICScore(df, **kw)


def _ref(name, ds, v, ps, states, ess):
    if name == "k2":
        return OS.k2(ds, v, ps, states)
    if name == "bdeu":
        return OS.bdeu(ds, v, ps, states, ess)
    if name == "bds":
        return OS.bds(ds, v, ps, states, ess)
    if name == "bic":
        return OS.bic(ds, v, ps, states)
    return OS.aic(ds, v, ps, states)


def _close(a, b):
    return abs(a - b) <= 1e-8 + 1e-8 * max(abs(a), abs(b))


@st.composite
def score_case(draw):
    ds = draw(gen.data_spec(max_rows=60, max_cols=4))
    ess = draw(st.sampled_from([0.5, 1, 5, 10, 12.5, 50]))
    dag = draw(dag_over(ds["columns"]))
    perm_rows = list(draw(st.permutations(list(range(len(ds["rows"]))))))
    return {"data": ds, "ess": ess, "dag": dag, "perm_rows": perm_rows, "cache_size": draw(st.sampled_from([1, 2, 10000]))}


def check_scores(case, out):
    from pgmpy.estimators import ScoreCache
    from pgmpy.metrics import structure_score
    from pgmpy.models import BayesianNetwork

    ds, ess, dag = case["data"], case["ess"], case["dag"]
    cols = ds["columns"]
    states = OC.effective_states(ds)
    sn = frame_state_names(ds) if ds.get("pass_state_names") else None
    df = build_frame(ds)
    df2 = build_frame(ds, row_order=case["perm_rows"], col_order=list(reversed(cols)))
    out.cls(f"kind_{ds['kinds'][0]}", "state_names_passed" if sn else "observed_states_only")
    out.evals = 0
    par = {v: [] for v in dag["nodes"]}
    for u, v in dag["edges"]:
        par[v].append(u)
    model = BayesianNetwork()
    model.add_nodes_from(dag["nodes"])
    model.add_edges_from([tuple(e) for e in dag["edges"]])
    for name in SCORES:
        sc = out.call(f"{name}:init", _score_obj, name, df, sn, ess)
        sc2 = out.call(f"{name}:init", _score_obj, name, df2, sn, ess)
        if sc is RAISED or sc2 is RAISED:
            continue
        for v in cols:
            others = [c for c in cols if c != v]
            for r in range(0, min(3, len(others)) + 1):
                for ps in itertools.combinations(others, r):
                    want = _ref(name, ds, v, ps, states, ess)
                    N = OC.counts(ds, v, list(ps), states=states)
                    unobs_cfg = any(sum(row.values()) == 0 for row in N.values())
                    unobs_state = any(all(row[s] == 0 for row in N.values()) for s in states[v])
                    nt = len(states[v]) >= 3 and r >= 1 and (unobs_cfg or unobs_state)
                    if nt:
                        out.nontrivial = True
                    got = out.call(f"{name}.local_score", sc.local_score, v, list(ps))
                    out.evals += 1
                    if got is RAISED:
                        continue
                    if not _close(float(got), want):
                        cls_ = []
                        if unobs_cfg:
                            cls_.append("unobserved_parent_configuration")
                        if unobs_state:
                            cls_.append("unobserved_child_state")
                        if name == "bds" and unobs_cfg:
                            # known defect class (see known_findings.json): with the unobserved configurations
                            # handled as the library does (beta = ess/(q r) and an extra -(q-q~) lgamma(ess/q~)),
                            # does the value agree?  Then it is exactly the known deviation.
                            import math as _m

                            qt = sum(1 for row in N.values() if sum(row.values()) > 0)
                            q_, r_ = len(N), len(states[v])
                            a_, b_ = ess / qt, ess / (q_ * r_)
                            alt = sum(_m.lgamma(a_) - _m.lgamma(sum(row.values()) + a_) + sum(_m.lgamma(n + b_) - _m.lgamma(b_) for n in row.values())
                                      for row in N.values() if sum(row.values()) > 0) - (q_ - qt) * _m.lgamma(a_)
                            cls_ = ["mixes_q_and_observed_q"] if _close(float(got), alt) else cls_ + ["other"]
                        out.fail(f"{name}.local_score:value" + (f"[{'+'.join(cls_)}]" if cls_ else ""), f"{v} | {list(ps)}: got {float(got)!r} want {want!r} r={len(states[v])} q={len(N)} n={len(ds['rows'])} ess={ess}")
                    # invariance to row order, column order and the order in which parents are listed
                    if r >= 1:
                        got2 = out.call(f"{name}.local_score[permuted]", sc2.local_score, v, list(reversed(ps)))
                        out.evals += 1
                        if got2 is not RAISED and not _close(float(got2), float(got)):
                            out.fail(f"{name}.local_score:order_dependent", f"{v} | {list(ps)}: {float(got)!r} vs {float(got2)!r}")
        # network score = sum of local scores + structure prior
        want = sum(_ref(name, ds, v, par[v], states, ess) for v in dag["nodes"])
        if name == "bds":
            want += OS.bds_prior(len(dag["nodes"]), len(dag["edges"]))
        got = out.call(f"{name}.score", sc.score, model)
        out.evals += 1
        local_sum = None
        if got is not RAISED:
            ls = [out.call(f"{name}.local_score", sc.local_score, v, list(model.predecessors(v))) for v in dag["nodes"]]
            if RAISED not in ls:
                local_sum = float(sum(ls)) + (OS.bds_prior(len(dag["nodes"]), len(dag["edges"])) if name == "bds" else 0.0)
                if not _close(float(got), local_sum):
                    out.fail(f"{name}.score:not_sum_of_local_plus_prior", f"{float(got)!r} vs {local_sum!r}")
        # cached scoring == uncached scoring
        cache = out.call(f"{name}:ScoreCache", ScoreCache, sc, df, max_size=case["cache_size"], **({"state_names": sn} if sn else {}))
        if cache is not RAISED:
            for rep in range(2):  # cold, then warm
                for v in dag["nodes"]:
                    b = sc.local_score(v, list(model.predecessors(v)))
                    # asked twice in a row: the second answer is a cache hit even when the cache is so small that
                    # every first request evicts something
                    for ask in ("first", "again"):
                        a = out.call(f"{name}.cache.local_score", cache.local_score, v, list(model.predecessors(v)))
                        out.evals += 1
                        if a is not RAISED and not _close(float(a), float(b)):
                            out.fail(f"{name}.cache.local_score:differs", f"{v}: {float(a)!r} vs {float(b)!r} (pass {rep}, asked {ask}, max_size={case['cache_size']})")
            cs = out.call(f"{name}.cache.score", cache.score, model)
            out.evals += 1
            if cs is not RAISED and got is not RAISED and not _close(float(cs), float(got)):
                out.fail(f"{name}.cache.score:differs_from_uncached", f"{float(cs)!r} vs {float(got)!r}")
        # metrics.structure_score
        if name in ("k2", "bdeu", "bds", "bic") and got is not RAISED:
            kw = {"equivalent_sample_size": ess} if name in ("bdeu", "bds") else {}
            if sn:
                kw["state_names"] = sn
            ms = out.call(f"structure_score[{name}]", structure_score, model, df, scoring_method=name, **kw)
            out.evals += 1
            if ms is not RAISED and not _close(float(ms), float(got)):
                out.fail(f"structure_score[{name}]:differs_from_class", f"{float(ms)!r} vs {float(got)!r}")
    out.sample = {"columns": cols, "n_rows": len(ds["rows"]), "card": [len(states[c]) for c in cols], "edges": dag["edges"], "ess": ess}


@st.composite
def equiv_case(draw):
    ds = draw(gen.data_spec(min_cols=3, max_cols=5, max_rows=50))
    dag = draw(dag_over(ds["columns"]))
    flips = [draw(st.integers(0, 10**6)) for _ in range(draw(st.integers(1, 4)))]
    return {"data": ds, "dag": dag, "flips": flips, "ess": draw(st.sampled_from([1, 5, 10, 25.5]))}


def check_equiv(case, out):
    from pgmpy.models import BayesianNetwork

    ds, dag = case["data"], case["dag"]
    nodes = dag["nodes"]
    edges = [tuple(e) for e in dag["edges"]]
    # covered-edge reversals keep the Markov equivalence class (Chickering 1995)
    cur = list(edges)
    n_rev = 0
    for f in case["flips"]:
        g = G(nodes, cur)
        covered = [(u, v) for (u, v) in cur if g.pa[v] - {u} == g.pa[u]]
        if not covered:
            break
        u, v = covered[f % len(covered)]
        cur = [e for e in cur if e != (u, v)] + [(v, u)]
        n_rev += 1
    g0, g1 = G(nodes, edges), G(nodes, cur)
    assert g0.skeleton() == g1.skeleton() and g0.vstructures() == g1.vstructures()
    out.nontrivial = n_rev > 0 and set(cur) != set(edges)
    out.cls(f"reversals_{n_rev}")
    sn = frame_state_names(ds) if ds.get("pass_state_names") else None
    df = build_frame(ds)
    out.evals = 0

    def mk(es):
        m = BayesianNetwork()
        m.add_nodes_from(nodes)
        m.add_edges_from(es)
        return m

    for name in ("bdeu", "bic", "aic"):
        sc = out.call(f"{name}:init", _score_obj, name, df, sn, case["ess"])
        if sc is RAISED:
            continue
        a = out.call(f"{name}.score", sc.score, mk(edges))
        b = out.call(f"{name}.score", sc.score, mk(cur))
        out.evals += 2
        if a is not RAISED and b is not RAISED and not _close(float(a), float(b)):
            out.fail(f"{name}.score:not_score_equivalent", f"{edges} -> {float(a)!r}; {cur} -> {float(b)!r}")
    out.sample = {"edges": [list(e) for e in edges], "equivalent": [list(e) for e in cur]}


SUBCHECKS = [
    Sub("local_scores", check_scores, strategy=lambda tier: score_case(), n={"quick": 12, "thorough": 400},
        shards={"quick": 12, "thorough": 16}, doc="K2/BDeu/BDs/BIC/AIC local_score for every (variable, parent set <= 3) vs closed forms; score = sum + prior; ScoreCache; structure_score; order invariance"),
    Sub("score_equivalence", check_equiv, strategy=lambda tier: equiv_case(), n={"quick": 100, "thorough": 1500},
        shards={"quick": 4, "thorough": 8}, doc="BDeu/BIC/AIC give equal scores on Markov-equivalent DAGs (covered-edge reversals)"),
]
PREDICATES = {}
