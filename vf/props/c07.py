"""C07 — samplers draw from the distribution they claim, reproducibly."""
import itertools
import math

from hypothesis import strategies as st

from .. import gen
from ..core import RAISED, Sub
from ..oracle.joint import Joint
from ..spec import build_bn, build_mn

RULE = (
    "exact tier: Bayesian-network specs (2-6 nodes) biased to zero entries and deterministic (one-hot) columns and "
    "to non-identity integer state names, latent subsets, positive-probability evidence (P >= 0.01), sizes "
    "{1,2,17,300}, seeds; forward / rejection / likelihood-weighted sampling and simulate() (plain, do, evidence, "
    "virtual evidence, virtual intervention, missingness) are checked row by row: row count, columns, every value "
    "a state name, every row of positive probability under the reference (truncated / conditioned) joint, "
    "evidence columns constant, likelihood weights equal prod P(e | sampled parents), same seed -> same frame; "
    "Gibbs kernels (BN and MN) equal the full conditional for every context of positive mass. statistical tier: "
    "models with <= 36 joint cells, N = 20000 samples, G-test against the exact law with alarm threshold p < 1e-9. "
    "non-trivial = a node with >= 2 parents of different cardinalities and (a zero entry or evidence)."
)
ASSUMPTIONS = [
    "evidence has probability >= 0.01 (rejection sampling needs 1/P(e) proposals per accepted row)",
    "statistical alarms only below p = 1e-9 (<= 300 tests per run: false-alarm probability <= 3e-7 per run); a bias "
    "below ~0.03 total variation is not detectable at N = 20000",
    "partial_samples are exercised with default integer state names only (the API does not say whether they hold "
    "state names or state numbers)",
    "n_jobs=1 everywhere",
]


def _st(spec, v):
    return spec["states"][spec["nodes"].index(v)]


@st.composite
def sample_case(draw, small=False, modes=None):
    kinds = ("range", "offset", "perm", "perm", "str", "mixed")
    spec = draw(gen.bn_spec(min_nodes=2, max_nodes=4 if small else 6, name_kinds=("str", "word"), state_kinds=kinds, latents=True,
                            min_card=1 if not small else 2, max_card=3, col_kinds=("dense", "dense", "zeros", "onehot", "onehot", "uniform") if not small else ("dense", "dense", "zeros"),
                            max_cells=36 if small else 5000))
    nodes = spec["nodes"]
    J = Joint.from_bn(spec)
    support = sorted(J.support_assignments(), key=lambda a: -J.table[a])
    a = support[draw(st.integers(0, min(len(support) - 1, 3)))]
    order = list(draw(st.permutations(nodes)))
    ne = draw(st.integers(0, min(2, len(nodes) - 1)))
    ev = []
    for v in order[:ne]:
        cand = ev + [[v, spec["states"][J.idx[v]][a[J.idx[v]]]]]
        if J.prob({x: s for x, s in cand}) >= 0.01:
            ev = cand
    mode = draw(st.sampled_from(modes or ["forward", "rejection", "likelihood_weighted", "simulate", "simulate_do", "simulate_do_evidence", "simulate_evidence", "simulate_virtual_evidence", "simulate_virtual_intervention", "simulate_missing"]))
    do = []

    def avg_col(v):
        c = next(c for c in spec["cpds"] if c["var"] == v)
        return [sum(row) / len(row) for row in c["table"]]

    if mode in ("simulate_do", "simulate_do_evidence"):
        for v in order[ne : ne + draw(st.integers(1, 2))]:
            # any state, also one that the node's own CPD gives probability 0 (an intervention does not care)
            k = spec["card"][J.idx[v]]
            zero = [i for i, p in enumerate(avg_col(v)) if p == 0]
            i = zero[0] if zero and draw(st.booleans()) else draw(st.integers(0, k - 1))
            do.append([v, spec["states"][J.idx[v]][i]])
        if mode == "simulate_do_evidence":
            # evidence on another variable, likely enough under the intervention for rejection sampling to finish
            dod = {d[0]: d[1] for d in do}
            Jd = Joint.from_bn(spec, do={v: spec["states"][J.idx[v]].index(s) for v, s in do})
            ev = []
            for v in [x for x in order if x not in dod][:2]:
                sts = spec["states"][J.idx[v]]
                best = max(sts, key=lambda s_: Jd.prob({**{x: y for x, y in ev}, **dod, v: s_}))
                cand = ev + [[v, best]]
                if Jd.prob({**{x: y for x, y in cand}, **dod}) >= 0.05:
                    ev = cand
            if not ev:
                mode = "simulate_do"
    virt = []
    if mode in ("simulate_virtual_evidence", "simulate_virtual_intervention"):
        v = order[-1]
        k = spec["card"][J.idx[v]]
        lik = [draw(st.sampled_from([0.0, 1.0, 0.5, 0.2])) for _ in range(k)]
        if mode == "simulate_virtual_evidence":
            lik[a[J.idx[v]]] = max(lik[a[J.idx[v]]], 0.5)
        else:
            ac = avg_col(v)
            if sum(l * p for l, p in zip(lik, ac)) <= 0:
                lik[max(range(k), key=lambda i: ac[i])] = 1.0
        virt = [[v, lik]]
    return {"spec": spec, "mode": mode, "evidence": ev, "do": do, "virtual": virt, "size": draw(st.sampled_from([1, 2, 17, 300])),
            "seed": draw(st.integers(0, 10**6)), "include_latents": draw(st.booleans()), "missing_prob": draw(st.sampled_from([0.1, 0.5]))}


def _reference(case):
    """(law over full assignments incl. latents as {named-assignment tuple: p}, fixed columns)"""
    spec = case["spec"]
    J = Joint.from_bn(spec)
    mode = case["mode"]
    ev = {v: s for v, s in case["evidence"]}
    if mode == "simulate_do":
        do_idx = {v: _st(spec, v).index(s) for v, s in case["do"]}
        J = Joint.from_bn(spec, do=do_idx)
        w = J.weighted(None)
        fixed = {v: s for v, s in case["do"]}
    elif mode == "simulate_do_evidence":
        do_idx = {v: _st(spec, v).index(s) for v, s in case["do"]}
        J = Joint.from_bn(spec, do=do_idx)
        w = J.weighted(ev)
        fixed = {**{v: s for v, s in case["do"]}, **ev}
    elif mode == "simulate_virtual_intervention":
        v, lik = case["virtual"][0]
        # soft intervention: cut the incoming edges of v (CPD marginalised as do() does) and weigh by the likelihood
        sp2 = _do_spec(spec, [v])
        J = Joint.from_bn(sp2)
        w = J.weighted(None, [(v, lik)])
        fixed = {}
    elif mode == "simulate_virtual_evidence":
        v, lik = case["virtual"][0]
        w = J.weighted(None, [(v, lik)])
        fixed = {}
    elif mode in ("rejection", "likelihood_weighted", "simulate_evidence"):
        w = J.weighted(ev)
        fixed = ev
    else:
        w = dict(J.table)
        fixed = {}
    z = sum(w.values())
    return J, {a: p / z for a, p in w.items() if p > 0}, fixed


def _do_spec(spec, nodes):
    """spec after pgmpy-style do(): incoming edges removed, CPD of the node = average over parent configurations"""
    sp = dict(spec)
    sp["edges"] = [e for e in spec["edges"] if e[1] not in nodes]
    cp = []
    for c in spec["cpds"]:
        if c["var"] in nodes and c["parents"]:
            k = len(c["table"])
            ncol = len(c["table"][0])
            col = [sum(c["table"][i]) / ncol for i in range(k)]
            s = sum(col)
            cp.append({"var": c["var"], "parents": [], "table": [[x / s] for x in col]})
        else:
            cp.append(c)
    sp["cpds"] = cp
    return sp


def _virt(spec, virtual):
    from pgmpy.factors.discrete import TabularCPD

    return [TabularCPD(v, len(lik), [[x] for x in lik], state_names={v: list(_st(spec, v))}) for v, lik in virtual]


def _draw(case, model, seed, size):
    from pgmpy.factors.discrete import State
    from pgmpy.sampling import BayesianModelSampling

    mode = case["mode"]
    il = case["include_latents"]
    if mode == "forward":
        return BayesianModelSampling(model).forward_sample(size=size, include_latents=il, seed=seed, show_progress=False, n_jobs=1)
    if mode == "rejection":
        return BayesianModelSampling(model).rejection_sample(evidence=[State(v, s) for v, s in case["evidence"]], size=size, include_latents=il, seed=seed, show_progress=False)
    if mode == "likelihood_weighted":
        return BayesianModelSampling(model).likelihood_weighted_sample(evidence=[State(v, s) for v, s in case["evidence"]], size=size, include_latents=il, seed=seed, show_progress=False, n_jobs=1)
    kw = dict(n_samples=size, include_latents=il, seed=seed, show_progress=False)
    if mode in ("simulate_do", "simulate_do_evidence"):
        kw["do"] = {v: s for v, s in case["do"]}
    if mode == "simulate_do_evidence":
        kw["evidence"] = {v: s for v, s in case["evidence"]}
    if mode == "simulate_evidence":
        kw["evidence"] = {v: s for v, s in case["evidence"]}
    if mode == "simulate_virtual_evidence":
        kw["virtual_evidence"] = _virt(case["spec"], case["virtual"])
    if mode == "simulate_virtual_intervention":
        kw["virtual_intervention"] = _virt(case["spec"], case["virtual"])
    if mode == "simulate_missing":
        kw.update(include_missing=True, missing_prob=case["missing_prob"], missing_columns=[case["spec"]["nodes"][0]])
    return model.simulate(**kw)


def check_rows(case, out):
    import pandas as pd

    spec, mode, size = case["spec"], case["mode"], case["size"]
    nodes = spec["nodes"]
    lat = set(spec["latents"])
    J, law, fixed = _reference(case)
    idx = J.idx
    par = {c["var"]: c["parents"] for c in spec["cpds"]}
    zeros = any(x == 0.0 for c in spec["cpds"] for row in c["table"] for x in row)
    out.nontrivial = any(len(p) >= 2 and len({spec["card"][idx[q]] for q in p}) > 1 for p in par.values()) and (zeros or bool(fixed))
    out.cls(f"mode_{mode}", f"size{size}")
    if zeros:
        out.cls("zero_entries")
    if any(isinstance(s[0], int) and s != list(range(len(s))) for s in spec["states"]):
        out.cls("non_identity_int_state_names")
    if lat:
        out.cls("with_latents")
    if mode == "simulate_virtual_evidence" and not all(isinstance(v, str) for v in nodes):
        return
    model = out.call("build", build_bn, spec)
    if model is RAISED:
        return
    df = out.call(mode, _draw, case, model, case["seed"], size)
    out.evals = 1
    if df is RAISED:
        return
    if not isinstance(df, pd.DataFrame) or len(df) != size:
        out.fail(f"{mode}:row_count", f"{len(df) if hasattr(df, '__len__') else type(df)} rows for size={size}")
        return
    want_cols = set(nodes) if case["include_latents"] else set(nodes) - lat
    cols = set(df.columns) - {"_weight"}
    extra = {c for c in cols if isinstance(c, str) and c.startswith("__")}
    if cols - extra != want_cols:
        out.fail(f"{mode}:columns", f"{sorted(map(str, cols))} vs {sorted(map(str, want_cols))} (include_latents={case['include_latents']})")
        return
    if mode == "likelihood_weighted" and "_weight" not in df.columns:
        out.fail(f"{mode}:no_weight_column", "")
        return
    miss_col = nodes[0] if mode == "simulate_missing" else None
    present = [v for v in nodes if v in df.columns]
    marg = {}
    for a, p in law.items():
        k = tuple(spec["states"][idx[v]][a[idx[v]]] for v in present)
        marg[k] = marg.get(k, 0.0) + p
    n_missing = 0
    for r in range(size):
        row = {}
        for v in present:
            x = df.iloc[r][v]
            x = x.item() if hasattr(x, "item") else x
            if mode == "simulate_missing" and (x is None or (isinstance(x, float) and math.isnan(x)) or x is pd.NA):
                if v != miss_col:
                    out.fail(f"{mode}:missing_value_outside_missing_columns", f"column {v!r}")
                    return
                n_missing += 1
                row[v] = None
                continue
            sts = _st(spec, v)
            if not any(x == s and (isinstance(x, str) == isinstance(s, str)) for s in sts):
                out.fail(f"{mode}:not_a_state_name", f"column {v!r}: {x!r} not in {sts}")
                return
            row[v] = next(s for s in sts if x == s)
        for v, s in fixed.items():
            if v in row and row[v] != s:
                out.fail(f"{mode}:evidence_not_respected", f"{v!r}={row[v]!r}, evidence {s!r}")
                return
        if mode == "likelihood_weighted":
            # a likelihood-weighted row comes from the proposal (CPDs of the non-evidence nodes, evidence clamped): it
            # may have posterior probability 0, in which case its weight must be 0 (checked below); judge the proposal
            ok = True
            if all(v in row for v in nodes):
                for c in spec["cpds"]:
                    if c["var"] in fixed:
                        continue
                    col = 0
                    for p in c["parents"]:
                        col = col * spec["card"][idx[p]] + _st(spec, p).index(row[p])
                    if c["table"][_st(spec, c["var"]).index(row[c["var"]])][col] <= 0:
                        ok = False
        elif any(row[v] is None for v in present):
            ok = any(all(row[v] is None or k[i] == row[v] for i, v in enumerate(present)) for k in marg)
        else:
            ok = tuple(row[v] for v in present) in marg
        if not ok:
            out.fail(f"{mode}:zero_probability_row", f"row {row} has probability 0 under the reference; edges={spec['edges']} states={spec['states']}")
            return
        if mode == "likelihood_weighted":
            # weight = prod over evidence variables of P(e | sampled parents); needs the parents in the frame
            if all(p in row for v in fixed for p in par[v]):
                w = 1.0
                for c in spec["cpds"]:
                    if c["var"] in fixed:
                        col = 0
                        for p in c["parents"]:
                            col = col * spec["card"][idx[p]] + _st(spec, p).index(row[p])
                        w *= c["table"][_st(spec, c["var"]).index(fixed[c["var"]])][col]
                got = float(df.iloc[r]["_weight"])
                if abs(got - w) > 1e-9 + 1e-9 * w:
                    out.fail(f"{mode}:weight", f"row {row}: weight {got!r}, expected {w!r}")
                    return
    # same seed -> same samples
    df2 = out.call(f"{mode}[repeat]", _draw, case, build_bn(spec), case["seed"], size)
    out.evals += 1
    if df2 is not RAISED:
        a_ = df.astype(object).where(df.notna(), None).values.tolist()
        b_ = df2.astype(object).where(df2.notna(), None).values.tolist()
        if list(df.columns) != list(df2.columns) or a_ != b_:
            out.fail(f"{mode}:not_reproducible_with_seed", f"seed={case['seed']}")
    out.sample = {"nodes": nodes, "edges": spec["edges"], "mode": mode, "size": size, "evidence": case["evidence"], "do": case["do"]}


# ---------------------------------------------------------------------------------------------- statistical tier
def check_stat(case, out):
    from scipy import stats

    spec, mode = case["spec"], case["mode"]
    if mode == "simulate_missing":
        mode_ok = False
    J, law, fixed = _reference(case)
    idx = J.idx
    nodes = spec["nodes"]
    N = 20000
    out.cls(f"mode_{mode}")
    model = out.call("build", build_bn, spec)
    if model is RAISED:
        return
    c2 = dict(case, include_latents=True)
    df = out.call(mode, _draw, c2, model, case["seed"], N)
    out.evals = 1
    if df is RAISED or len(df) != N:
        if df is not RAISED:
            out.fail(f"{mode}:row_count", f"{len(df)} for {N}")
        return
    out.nontrivial = len(law) >= 3
    if mode == "simulate_missing":
        col = nodes[0]
        k = int(df[col].isna().sum())
        p = case["missing_prob"]
        tail = min(stats.binom.cdf(k, N, p), stats.binom.sf(k - 1, N, p))
        if tail < 1e-9:
            out.fail("simulate_missing:missing_rate", f"{k}/{N} missing for missing_prob={p} (tail {tail:.3g})")
        df = df.dropna()
    cnt = {}
    weights = df["_weight"].tolist() if "_weight" in df.columns else None
    vals = {v: df[v].tolist() for v in nodes}
    for r in range(len(df)):
        key = tuple(_st(spec, v).index(next(s for s in _st(spec, v) if vals[v][r] == s)) for v in nodes)
        cnt[key] = cnt.get(key, 0.0) + (weights[r] if weights else 1.0)
    tot = sum(cnt.values())
    if any(k not in law and c > 0 for k, c in cnt.items()):
        out.fail(f"{mode}:zero_probability_row", "a sampled assignment (of positive weight) has probability 0")
        return
    if weights:
        # weighted counts: compare the self-normalised estimate cell by cell with a z-bound instead of a G-test
        m2 = {}
        for r in range(len(df)):
            key = tuple(_st(spec, v).index(next(s for s in _st(spec, v) if vals[v][r] == s)) for v in nodes)
            m2[key] = m2.get(key, 0.0) + weights[r] ** 2
        for k, p in law.items():
            est = cnt.get(k, 0.0) / tot
            se = math.sqrt(max(m2.get(k, 0.0), 1e-300)) / tot + 1e-4
            if abs(est - p) > 8 * se + 0.02:
                out.fail(f"{mode}:distribution", f"cell {k}: weighted estimate {est:.4f} vs exact {p:.4f}")
                return
    else:
        g = 0.0
        n = len(df)
        for k, p in law.items():
            o = cnt.get(k, 0.0)
            if o > 0:
                g += 2 * o * math.log(o / (n * p))
        dof = max(1, len(law) - 1)
        pv = stats.chi2.sf(g, dof)
        if pv < 1e-9:
            out.fail(f"{mode}:distribution", f"G={g:.1f} dof={dof} p={pv:.3g}; edges={spec['edges']} states={spec['states']} evidence={case['evidence']}")
    out.sample = {"nodes": nodes, "edges": spec["edges"], "mode": mode, "cells": len(law)}


# ---------------------------------------------------------------------------------------------- Gibbs kernels
@st.composite
def gibbs_case(draw):
    kind = draw(st.sampled_from(["bn", "bn", "mn"]))
    if kind == "bn":
        spec = draw(gen.bn_spec(min_nodes=2, max_nodes=4, name_kinds=("str", "word"), state_kinds=("range", "offset", "perm", "str"), min_card=1, max_card=3))
    else:
        spec = draw(gen.mn_spec(min_nodes=2, max_nodes=4, connected=False, name_kinds=("str", "word"), state_kinds=("range", "offset", "perm", "str"), max_card=3))
    return {"kind": kind, "spec": spec}


def check_gibbs(case, out):
    from pgmpy.sampling import GibbsSampling

    spec = case["spec"]
    nodes = spec["nodes"]
    if case["kind"] == "bn":
        J = Joint.from_bn(spec)
        model = out.call("build", build_bn, spec)
    else:
        J = Joint.from_factors(nodes, spec["states"], spec["factors"])
        model = out.call("build", build_mn, spec)
    if model is RAISED:
        return
    out.cls(f"kind_{case['kind']}")
    if any(isinstance(s[0], int) and s != list(range(len(s))) for s in spec["states"]):
        out.cls("non_identity_int_state_names")
    g = out.call("GibbsSampling", GibbsSampling, model)
    if g is RAISED:
        return
    out.nontrivial = len(nodes) >= 3
    out.evals = 0
    gvars = list(g.variables)
    for v in nodes:
        others = [u for u in gvars if u != v]
        tm = g.transition_models.get(v)
        if tm is None:
            out.fail("gibbs:kernel_missing", f"{v!r}")
            continue
        for tup in itertools.product(*[range(spec["card"][J.idx[u]]) for u in others]):
            ctx = dict(zip(others, tup))
            full = []
            for s in range(spec["card"][J.idx[v]]):
                a = tuple(s if u == v else ctx[u] for u in nodes)
                full.append(J.table[a])
            z = sum(full)
            if z <= 0:
                continue
            want = [x / z for x in full]
            got = tm.get(tup)
            out.evals += 1
            if got is None or len(got) != len(want) or any(abs(float(a) - b) > 1e-9 for a, b in zip(got, want)):
                out.fail("gibbs:kernel_not_full_conditional", f"var={v!r} others={dict(ctx)} got={None if got is None else [float(x) for x in got]} want={want} states={spec['states']}")
                return
    out.sample = {"kind": case["kind"], "nodes": nodes}


def check_known_hang(case, out):
    """simulate(do={X: x}) with x of probability 0 under X's averaged CPD: must return (it used to spin in rejection sampling)."""
    spec = case["spec"]
    model = build_bn(spec)
    r = out.call("simulate_do[zero_probability_state]", model.simulate, n_samples=1, do={case["do"][0][0]: case["do"][0][1]}, seed=1, show_progress=False, _timeout=15)
    out.nontrivial = True
    if r is not RAISED and len(r) != 1:
        out.fail("simulate_do[zero_probability_state]:row_count", str(len(r)))


_HANG_CASE = {"spec": {"name_kind": "str", "shape": "chain", "nodes": ["A", "B"], "topo": ["A", "B"], "edges": [["A", "B"]], "latents": [], "card": [2, 3],
                       "states": [[0, 1], [0, 1, 2]], "explicit_states": False,
                       "cpds": [{"var": "A", "parents": [], "table": [[0.5], [0.5]]}, {"var": "B", "parents": ["A"], "table": [[0.3, 0.6], [0.7, 0.4], [0.0, 0.0]]}]},
              "do": [["B", 2]]}

THOROUGH_SCALE = 2  # thorough-tier example counts are n["thorough"] x this (one thorough run then takes roughly 5-10 minutes on 16 cores)
# ------------------------------------------------------------------------------------------------- partial samples
@st.composite
def partial_case(draw):
    spec = draw(gen.bn_spec(min_nodes=2, max_nodes=5, name_kinds=("str", "word"), state_kinds=("range",), min_card=2))
    nodes = spec["nodes"]
    size = draw(st.sampled_from([1, 4, 17]))
    k = draw(st.integers(1, min(2, len(nodes) - 1)))
    pv = list(draw(st.permutations(nodes)))[:k]
    values = {v: [draw(st.integers(0, spec["card"][nodes.index(v)] - 1)) for _ in range(size)] for v in pv}
    return {"spec": spec, "size": size, "partial": [[v, values[v]] for v in pv], "index_mode": draw(st.sampled_from(["default", "shuffled", "offset", "strings"])),
            "index_perm": list(draw(st.permutations(list(range(size))))), "seed": draw(st.integers(0, 10**6)), "api": draw(st.sampled_from(["forward_sample", "simulate"]))}


def check_partial(case, out):
    """forward sampling with given columns (partial_samples): the given values come back row by row, whatever the frame's
    index looks like, and every other variable is drawn from its CPD given the values in its row"""
    import pandas as pd
    from pgmpy.sampling import BayesianModelSampling

    spec, size = case["spec"], case["size"]
    nodes = spec["nodes"]
    idx = {v: i for i, v in enumerate(nodes)}
    model = out.call("build", build_bn, spec)
    if model is RAISED:
        return
    index = {"default": list(range(size)), "shuffled": case["index_perm"], "offset": [100 + 3 * i for i in range(size)],
             "strings": [f"r{i}" for i in case["index_perm"]]}[case["index_mode"]]
    part = pd.DataFrame({v: vals for v, vals in case["partial"]}, index=index)
    out.cls(f"index_{case['index_mode']}", f"api_{case['api']}", f"given{len(case['partial'])}")
    topo = spec["topo"]
    given = {v for v, _ in case["partial"]}
    out.nontrivial = size > 1 and case["index_mode"] != "default" and any(topo.index(v) > 0 for v in given)
    if case["api"] == "forward_sample":
        df = out.call("forward_sample[partial_samples]", BayesianModelSampling(model).forward_sample, size=size, partial_samples=part, seed=case["seed"], show_progress=False, n_jobs=1)
    else:
        df = out.call("simulate[partial_samples]", model.simulate, n_samples=size, partial_samples=part, seed=case["seed"], show_progress=False)
    out.evals = 1
    if df is RAISED:
        return
    tag = f"{case['api']}[partial_samples]"
    if len(df) != size or set(df.columns) != set(nodes):
        out.fail(f"{tag}:shape", f"{len(df)} rows, columns {list(df.columns)}")
        return
    for v, vals in case["partial"]:
        got = [x.item() if hasattr(x, "item") else x for x in df[v].tolist()]
        if any(isinstance(g, float) and g != g for g in got) or [int(g) for g in got] != list(vals):
            out.fail(f"{tag}:given_values_not_returned_row_by_row", f"{v}: got {got} given {vals} (index {case['index_mode']})")
            return
    for r in range(size):
        row = {v: (lambda x: int(x.item() if hasattr(x, "item") else x))(df.iloc[r][v]) for v in nodes}
        for c in spec["cpds"]:
            if c["var"] in given:
                continue
            col = 0
            for p_ in c["parents"]:
                col = col * spec["card"][idx[p_]] + row[p_]
            if c["table"][row[c["var"]]][col] <= 0:
                out.fail(f"{tag}:zero_probability_value", f"row {r}: {c['var']}={row[c['var']]} given parents {[(p_, row[p_]) for p_ in c['parents']]} has probability 0")
                return
    out.sample = {"nodes": nodes, "partial": [v for v, _ in case["partial"]], "index": case["index_mode"], "size": size}


def check_seed_sweep(case, out):
    """the same seeded call in interpreters with different PYTHONHASHSEED: the runner compares the canonical answers of
    the shards (every shard sees the same cases); columns are compared by name, rows in order, missing cells as None"""
    import math as _m

    spec, mode = case["spec"], case["mode"]
    if mode == "simulate_virtual_evidence" and not all(isinstance(v, str) for v in spec["nodes"]):
        return
    model = out.call("build", build_bn, spec)
    if model is RAISED:
        return
    size = min(case["size"], 17)
    df = out.call(mode, _draw, case, model, case["seed"], size)
    out.evals = 1
    out.cls(f"mode_{mode}")
    out.nontrivial = len(spec["nodes"]) >= 3
    if df is RAISED:
        return

    def cell(x):
        x = x.item() if hasattr(x, "item") else x
        if x is None or (isinstance(x, float) and _m.isnan(x)):
            return None
        return round(x, 12) if isinstance(x, float) else repr(x)

    out.answer = {repr(c): [cell(x) for x in df[c].tolist()] for c in sorted(df.columns, key=repr)}


SUBCHECKS = [
    Sub("do_zero_probability_state", check_known_hang, strategy=lambda tier: st.just(_HANG_CASE), n={"quick": 1, "thorough": 1}, shards={"quick": 1, "thorough": 1},
        doc="regression probe of a repaired defect: simulate(do=...) to a state that the node CPD gives probability 0 used not to terminate"),
    Sub("partial_samples", check_partial, strategy=lambda tier: partial_case(), n={"quick": 100, "thorough": 1500}, shards={"quick": 3, "thorough": 6},
        doc="forward_sample / simulate with partial_samples: given columns returned row by row for any frame index, the rest drawn given them"),
    Sub("seeded_across_hashseeds", check_seed_sweep, strategy=lambda tier: sample_case(modes=["simulate_missing", "forward", "simulate_missing", "simulate", "likelihood_weighted", "simulate_do", "simulate_evidence", "simulate_virtual_intervention"]), n={"quick": 60, "thorough": 600}, shards={"quick": 4, "thorough": 8},
        sweep=True, doc="a fixed seed gives the same samples (incl. the positions of missing values) in interpreters with different PYTHONHASHSEED"),
    Sub("rows", check_rows, strategy=lambda tier: sample_case(), n={"quick": 150, "thorough": 2500},
        shards={"quick": 10, "thorough": 16}, doc="per-row exact checks of forward / rejection / likelihood-weighted sampling and simulate(): counts, columns, state names, support, evidence, weights, seed reproducibility"),
    Sub("distribution", check_stat, strategy=lambda tier: sample_case(small=True), n={"quick": 25, "thorough": 280},
        shards={"quick": 8, "thorough": 16}, doc="G-test (p<1e-9) of 20000 samples against the exact joint / posterior / interventional law; missingness rate"),
    Sub("gibbs_kernel", check_gibbs, strategy=lambda tier: gibbs_case(), n={"quick": 80, "thorough": 1000},
        shards={"quick": 4, "thorough": 8}, doc="GibbsSampling transition kernels (BN and MN) equal the full conditional of each variable"),
]
PREDICATES = {}
