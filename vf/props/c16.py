"""C16 — queries are pure, repeatable and representation-independent."""
import itertools
import math
import os

from hypothesis import strategies as st

from .. import gen
from ..core import RAISED, Sub
from ..oracle.joint import Joint, compare_named
from ..spec import build_bn, build_dag, build_frame, build_mn, factor_to_named
from .c01 import _virtual_cpds, query_case
from .c06 import dag_over

RULE = (
    "purity: a table of ~55 public calls (exact / causal / approximate inference, samplers and simulate, predict, "
    "five scores, MLE / Bayesian / EM estimators, PC, hill climbing, exhaustive and tree search, CI tests, four "
    "writers and save, all conversions, triangulate, elimination orders, factor helpers) is run on generated "
    "arguments whose full content (graph nodes / edges / attributes, latents, CPDs and factors with values and "
    "state names, data-frame values / dtypes / index / columns, start graphs) is snapshotted before and compared "
    "after; engine histories: random question sequences on one shared VariableElimination / BeliefPropagation / "
    "CausalInference / sampling engine, each answer compared with a fresh engine on a freshly built model and with "
    "the same question asked again; relabelling: bijective renaming of variables and states, permuted state "
    "order, permuted node / edge / CPD insertion order must leave answers unchanged after mapping back; "
    "configurations: identical cases evaluated under 8 PYTHONHASHSEED values in fresh interpreters and under the "
    "torch backend, canonicalised answers compared. non-trivial = a history with a virtual-evidence question "
    "followed by another question / a renaming that changes the sort order / a result scope of >= 2 variables."
)
ASSUMPTIONS = [
    "only valid questions are compared; a question that raises must leave the engine answering later questions correctly",
    "calls that are documented to modify their receiver (fit, fit_update, in-place variants) are judged on their *other* arguments",
    "torch backend on CPU, float64; tolerance 1e-9 (1e-6 for float32)",
    "n_jobs=1 everywhere",
]


# ---------------------------------------------------------------------------------------------- snapshots
def snap(obj):
    """deep, order-insensitive-where-irrelevant rendering of an argument"""
    import numpy as np
    import pandas as pd

    try:
        from pgmpy.factors.discrete import DiscreteFactor
    except Exception:  # noqa: BLE001
        DiscreteFactor = ()
    if obj is None or isinstance(obj, (str, int, float, bool)):
        return obj
    if isinstance(obj, pd.DataFrame):
        return ("df", [str(c) for c in obj.columns], [str(t) for t in obj.dtypes], list(map(str, obj.index)), obj.astype(object).where(obj.notna(), None).values.tolist())
    if isinstance(obj, DiscreteFactor):
        return ("factor", type(obj).__name__, list(map(repr, obj.variables)), [int(c) for c in obj.cardinality], np.asarray(obj.values, dtype=float).ravel().tolist(),
                sorted((repr(k), list(map(repr, v))) for k, v in obj.state_names.items()))
    if hasattr(obj, "nodes") and hasattr(obj, "edges"):
        d = ["graph", type(obj).__name__, sorted((repr(n), sorted((str(k), repr(v)) for k, v in a.items())) for n, a in obj.nodes(data=True)),
             sorted((repr(u), repr(v), sorted((str(k), repr(x)) for k, x in a.items())) for u, v, a in obj.edges(data=True))]
        if hasattr(obj, "latents"):
            d.append(sorted(map(repr, obj.latents)))
        for attr in ("cpds", "factors"):
            if hasattr(obj, attr):
                d.append(sorted((snap(f) for f in getattr(obj, attr)), key=repr))
        return d
    if isinstance(obj, dict):
        return ("dict", sorted((repr(k), snap(v)) for k, v in obj.items()))
    if isinstance(obj, (list, tuple, set, frozenset)):
        items = [snap(x) for x in obj]
        return (type(obj).__name__, sorted(items, key=repr) if isinstance(obj, (set, frozenset)) else items)
    if isinstance(obj, np.ndarray):
        return ("nd", obj.tolist())
    return repr(obj)


# ---------------------------------------------------------------------------------------------- purity table
def _bn_calls(model, spec, case):
    from pgmpy.estimators import (AICScore, BayesianEstimator, BDeuScore, BDsScore, BicScore, ExpectationMaximization, K2Score,
                                  MaximumLikelihoodEstimator)
    from pgmpy.factors.discrete import State
    from pgmpy.inference import ApproxInference, BeliefPropagation, CausalInference, VariableElimination
    from pgmpy.inference.EliminationOrder import MinFill, MinNeighbors, MinWeight, WeightedMinFill
    from pgmpy.readwrite import BIFWriter, NETWriter, UAIWriter, XMLBIFWriter
    from pgmpy.sampling import BayesianModelSampling, GibbsSampling

    q = list(case["query"])
    ev = {v: s for v, s in case["evidence"]}
    evs = [State(v, s) for v, s in case["evidence"]]
    strn = spec["name_kind"] in ("str", "word")
    virt = lambda: _virtual_cpds(spec, case["virtual"]) if case["virtual"] else None  # noqa: E731
    tmp = os.environ.get("VF_TMP") or "/tmp"
    # rejection-based calls loop until enough samples are accepted: use them only when the evidence is likely enough
    likely = (not ev) or Joint.from_bn(spec).prob(dict(ev)) >= 0.02
    calls = {
        "VE.query": lambda: VariableElimination(model).query(q, evidence=ev or None, virtual_evidence=virt(), show_progress=False),
        "VE.query[MinFill]": lambda: VariableElimination(model).query(q, evidence=ev or None, elimination_order="MinFill", show_progress=False),
        "VE.map_query": lambda: VariableElimination(model).map_query(q, evidence=ev or None, show_progress=False),
        "VE.max_marginal": lambda: VariableElimination(model).max_marginal(q, evidence=ev or None, show_progress=False),
        "VE.induced_graph": lambda: VariableElimination(model).induced_graph(list(model.nodes())),
        "get_state_probability": lambda: model.get_state_probability(dict(ev) or {q[0]: spec["states"][spec["nodes"].index(q[0])][0]}),
        "MinFill.get_elimination_order": lambda: MinFill(model).get_elimination_order(show_progress=False),
        "MinNeighbors.get_elimination_order": lambda: MinNeighbors(model).get_elimination_order(show_progress=False),
        "MinWeight.get_elimination_order": lambda: MinWeight(model).get_elimination_order(show_progress=False),
        "WeightedMinFill.get_elimination_order": lambda: WeightedMinFill(model).get_elimination_order(show_progress=False),
        "forward_sample": lambda: BayesianModelSampling(model).forward_sample(size=5, seed=1, show_progress=False, n_jobs=1),
        "likelihood_weighted_sample": lambda: BayesianModelSampling(model).likelihood_weighted_sample(evidence=evs, size=5, seed=1, show_progress=False, n_jobs=1),
        "GibbsSampling": lambda: GibbsSampling(model),
        "simulate": lambda: model.simulate(n_samples=5, seed=1, show_progress=False),
        "to_markov_model": lambda: model.to_markov_model(),
        "moralize": lambda: model.moralize(),
        "get_markov_blanket": lambda: model.get_markov_blanket(q[0]),
        "active_trail_nodes": lambda: model.active_trail_nodes(q[0], observed=list(ev)),
        "do[inplace=False]": lambda: model.do([q[0]], inplace=False),
        "copy": lambda: model.copy(),
        "check_model": lambda: model.check_model(),
        "get_cardinality": lambda: model.get_cardinality(),
        "get_random_cpds[inplace=False]": lambda: model.get_random_cpds(n_states=2, inplace=False),
        "local_independencies": lambda: model.local_independencies(q[0]) if strn else None,
    }
    if len(spec["nodes"]) <= 4 and strn:
        calls["get_independencies"] = lambda: model.get_independencies()
    if strn:
        calls.update({
            "CausalInference.query": lambda: CausalInference(model).query(q, do=None, evidence=ev or None, show_progress=False),
            "CausalInference.get_all_backdoor_adjustment_sets": lambda: _quiet(lambda: CausalInference(model).get_all_backdoor_adjustment_sets(spec["nodes"][0], spec["nodes"][-1])) if len(spec["nodes"]) > 1 else None,
            "XMLBIFWriter": lambda: XMLBIFWriter(model).__str__(),
            "UAIWriter": lambda: str(UAIWriter(model)),
            "NETWriter": lambda: str(NETWriter(model)),
            "save[xmlbif]": lambda: model.save(os.path.join(tmp, "pure.xmlbif"), filetype="xmlbif"),
        })
        if likely:
            calls["ApproxInference.query"] = lambda: ApproxInference(model).query(q, n_samples=20, evidence=ev or None, show_progress=False, seed=1)
        if len(spec["nodes"]) <= 3:
            calls["BIFWriter"] = lambda: str(BIFWriter(model))
    if ev and likely:
        calls["rejection_sample"] = lambda: BayesianModelSampling(model).rejection_sample(evidence=evs, size=3, seed=1, show_progress=False)
    from .c03 import _moral_connected

    if _moral_connected(spec):
        calls.update({
            "BP.query": lambda: BeliefPropagation(model).query(q, evidence=ev or None, virtual_evidence=virt(), show_progress=False),
            "BP.map_query": lambda: BeliefPropagation(model).map_query(q, evidence=ev or None, show_progress=False),
            "BP.calibrate": lambda: BeliefPropagation(model).calibrate(),
            "to_junction_tree": lambda: model.to_junction_tree(),
        })
    return calls


def _quiet(fn):
    try:
        return fn()
    except ValueError:
        return None


def check_purity_bn(case, out):
    spec = case["spec"]
    model = out.call("build", build_bn, spec)
    if model is RAISED:
        return
    out.cls(f"names_{spec['name_kind']}")
    out.nontrivial = len(spec["nodes"]) >= 3 and bool(case["evidence"] or case["virtual"])
    calls = _bn_calls(model, spec, case)
    before = snap(model)
    out.evals = 0
    for name, fn in calls.items():
        try:
            fn()
        except Exception:  # noqa: BLE001 - whether the call works is other properties' business; here only purity counts
            out.cls("call_raised")
        out.evals += 1
        after = snap(model)
        if after != before:
            out.fail(f"{name}:modified_the_model", _diff(before, after))
            return
    out.sample = {"nodes": spec["nodes"], "edges": spec["edges"], "calls": len(calls)}


def _diff(a, b):
    sa, sb = repr(a), repr(b)
    i = next((k for k in range(min(len(sa), len(sb))) if sa[k] != sb[k]), min(len(sa), len(sb)))
    return f"first difference at char {i}: ...{sa[max(0, i - 60):i + 60]}... vs ...{sb[max(0, i - 60):i + 60]}..."


@st.composite
def data_case(draw):
    ds = draw(gen.data_spec(min_cols=2, max_cols=4, min_rows=6, max_rows=30, min_card=2, max_card=3, kinds=("int", "cat"), extra_states=False, dependent=True))
    ds["pass_state_names"] = False
    dag = draw(dag_over(ds["columns"]))
    return {"data": ds, "dag": dag, "latent_card": draw(st.integers(2, 3))}


def check_purity_data(case, out):
    import pandas as pd
    from pgmpy.base import DAG
    from pgmpy.estimators import (AICScore, BayesianEstimator, BDeuScore, BDsScore, BicScore, ExhaustiveSearch, ExpectationMaximization, HillClimbSearch,
                                  K2Score, MaximumLikelihoodEstimator, PC, ScoreCache, TreeSearch)
    from pgmpy.estimators.CITests import chi_square, g_sq, pearsonr, power_divergence
    from pgmpy.metrics import structure_score
    from pgmpy.models import BayesianNetwork

    ds, dag = case["data"], case["dag"]
    cols = ds["columns"]
    df = build_frame(ds)

    def mk(cls=BayesianNetwork):
        m = cls()
        m.add_nodes_from(dag["nodes"])
        m.add_edges_from([tuple(e) for e in dag["edges"]])
        return m

    model = mk()
    start = mk(DAG)
    fitted = mk()
    fitted.fit(df)
    X, Y = cols[0], cols[1]
    Z = cols[2:3]
    num = pd.DataFrame({c: [float(r[j]) + 0.1 * ((i * (j + 3)) % 7) for i, r in enumerate(ds["rows"])] for j, c in enumerate(cols)})
    objs = {"data": df, "model": model, "start_dag": start, "fitted": fitted, "num": num}
    latent_model = BayesianNetwork([("L", c) for c in cols], latents={"L"})
    calls = {
        "K2Score.score": lambda: K2Score(df).score(model),
        "BDeuScore.score": lambda: BDeuScore(df).score(model),
        "BDsScore.score": lambda: BDsScore(df).score(model),
        "BicScore.score": lambda: BicScore(df).score(model),
        "AICScore.score": lambda: AICScore(df).score(model),
        "ScoreCache.score": lambda: ScoreCache.ScoreCache(K2Score(df), df).score(model) if hasattr(ScoreCache, "ScoreCache") else ScoreCache(K2Score(df), df).score(model),
        "structure_score": lambda: structure_score(model, df, scoring_method="bic"),
        "MLE.get_parameters": lambda: MaximumLikelihoodEstimator(model, df).get_parameters(n_jobs=1),
        "BayesianEstimator.get_parameters": lambda: BayesianEstimator(model, df).get_parameters(prior_type="BDeu", n_jobs=1),
        "EM.get_parameters": lambda: ExpectationMaximization(latent_model, df).get_parameters(latent_card={"L": case["latent_card"]}, max_iter=2, seed=1, show_progress=False),
        "DAG.fit": lambda: start.fit(df),
        "PC.estimate": lambda: PC(df).estimate(ci_test="chi_square", return_type="dag", n_jobs=1, show_progress=False),
        "HillClimbSearch.estimate": lambda: HillClimbSearch(df).estimate(scoring_method="k2", start_dag=start, max_iter=5, show_progress=False),
        "HillClimbSearch.estimate[default_start]": lambda: HillClimbSearch(df).estimate(scoring_method="bic", max_iter=5, show_progress=False),
        "TreeSearch.estimate": lambda: TreeSearch(df, root_node=cols[0], n_jobs=1).estimate(show_progress=False),
        "chi_square": lambda: chi_square(X, Y, Z, df, boolean=False),
        "g_sq": lambda: g_sq(X, Y, Z, df, boolean=True, significance_level=0.05),
        "power_divergence": lambda: power_divergence(X, Y, [], df, boolean=False, lambda_="neyman"),
        "pearsonr": lambda: pearsonr(X, Y, Z, num, boolean=False),
        "predict": lambda: fitted.predict(df.drop(columns=[cols[-1]]).head(3), n_jobs=1),
        "predict_probability": lambda: fitted.predict_probability(df.drop(columns=[cols[-1]]).head(3)),
        "fit_update[data]": lambda: mk_fit().fit_update(df, n_prev_samples=10),
    }

    def mk_fit():
        m = mk()
        m.fit(df)
        return m

    if len(cols) <= 3:
        calls["ExhaustiveSearch.estimate"] = lambda: ExhaustiveSearch(df, scoring_method=K2Score(df)).estimate()
    out.nontrivial = len(cols) >= 3 and len(dag["edges"]) >= 1
    before = {k: snap(v) for k, v in objs.items()}
    out.evals = 0
    import warnings

    for name, fn in calls.items():
        with warnings.catch_warnings():
            warnings.simplefilter("ignore")
            try:
                fn()
            except Exception:  # noqa: BLE001
                out.cls(f"call_raised[{name}]")
        out.evals += 1
        for k, v in objs.items():
            if snap(v) != before[k]:
                out.fail(f"{name}:modified_its_argument[{k}]", _diff(before[k], snap(v)))
                return
    out.sample = {"columns": cols, "edges": dag["edges"], "calls": len(calls)}


@st.composite
def mn_case(draw):
    return {"spec": draw(gen.mn_spec(min_nodes=2, max_nodes=5, connected=True))}


def check_purity_mn(case, out):
    from pgmpy.factors import factor_divide, factor_product
    from pgmpy.factors.base import factor_sum_product
    from pgmpy.inference import BeliefPropagation, VariableElimination
    from pgmpy.readwrite import UAIWriter
    from pgmpy.sampling import GibbsSampling

    spec = case["spec"]
    model = out.call("build", build_mn, spec)
    if model is RAISED:
        return
    nodes = spec["nodes"]
    fs = model.get_factors()
    calls = {
        "mn.VE.query": lambda: VariableElimination(model).query([nodes[0]], show_progress=False),
        "mn.VE.map_query": lambda: VariableElimination(model).map_query([nodes[0]], show_progress=False),
        "mn.BP.query": lambda: BeliefPropagation(model).query([nodes[0]], show_progress=False),
        "mn.to_junction_tree": lambda: model.to_junction_tree(),
        "mn.triangulate[inplace=False]": lambda: model.triangulate(heuristic="H3", inplace=False),
        "mn.get_partition_function": lambda: model.get_partition_function(),
        "mn.markov_blanket": lambda: model.markov_blanket(nodes[0]),
        "mn.copy": lambda: model.copy(),
        "mn.get_local_independencies": lambda: model.get_local_independencies() if spec["name_kind"] in ("str", "word") else None,
        "mn.to_bayesian_model": lambda: _quiet(lambda: model.to_bayesian_model()),
        "mn.GibbsSampling": lambda: GibbsSampling(model),
        "factor_product": lambda: factor_product(*fs),
        "factor_divide": lambda: factor_divide(fs[0], fs[0]),
        "factor_sum_product": lambda: factor_sum_product([fs[0].variables[0]], fs) if spec["name_kind"] in ("str", "word", "int") else None,
    }
    if spec["name_kind"] in ("str", "word"):
        calls["mn.to_factor_graph"] = lambda: model.to_factor_graph()
        calls["mn.UAIWriter"] = lambda: str(UAIWriter(model))
    before = snap(model)
    out.nontrivial = len(nodes) >= 3
    out.evals = 0
    for name, fn in calls.items():
        try:
            fn()
        except Exception:  # noqa: BLE001
            out.cls("call_raised")
        out.evals += 1
        if snap(model) != before:
            out.fail(f"{name}:modified_the_model", _diff(before, snap(model)))
            return
    out.sample = {"nodes": nodes, "calls": len(calls)}


# ---------------------------------------------------------------------------------------------- engine histories
QOPS = ["plain", "plain", "evidence", "evidence", "virtual", "virtual", "map", "map_virtual", "order", "max_calibrate", "invalid", "repeat"]


@st.composite
def engine_case(draw):
    spec = draw(gen.bn_spec(min_nodes=2, max_nodes=5, name_kinds=("str", "word"), connected=True, min_card=2,
                            col_kinds=("dense", "dense", "zeros"), state_kinds=("range", "offset", "str", "perm")))
    engine = draw(st.sampled_from(["ve", "ve", "bp", "causal", "sampling"]))
    steps = draw(st.lists(st.fixed_dictionaries({"op": st.sampled_from(QOPS), "a": st.integers(0, 9), "b": st.integers(0, 9), "c": st.integers(0, 9)}), min_size=2, max_size=8))
    return {"spec": spec, "engine": engine, "steps": steps}


def run_engine(case, out):
    from pgmpy.factors.discrete import State
    from pgmpy.inference import BeliefPropagation, CausalInference, VariableElimination
    from pgmpy.sampling import BayesianModelSampling

    spec, kind = case["spec"], case["engine"]
    nodes = spec["nodes"]
    n = len(nodes)
    J = Joint.from_bn(spec)
    support = sorted(J.support_assignments())
    mk = {"ve": VariableElimination, "bp": BeliefPropagation, "causal": CausalInference, "sampling": BayesianModelSampling}[kind]
    eng = out.call("engine", mk, build_bn(spec))
    if eng is RAISED:
        return
    out.cls(f"engine_{kind}")
    out.evals = 0
    seen_virtual = False
    last = None
    for s in case["steps"]:
        op = s["op"]
        if op == "repeat" and last is not None:
            op, s = last
        a = support[s["a"] % len(support)]
        q = [nodes[s["b"] % n]]
        rest = [v for v in nodes if v not in q]
        ev = {}
        virt = []
        elim = None
        if op in ("evidence", "map", "order") and rest:
            v = rest[s["c"] % len(rest)]
            ev = {v: spec["states"][J.idx[v]][a[J.idx[v]]]}
        if op in ("virtual", "map_virtual") and rest:
            v = rest[s["c"] % len(rest)]
            k = spec["card"][J.idx[v]]
            lik = [[0.2, 0.9, 0.5][(s["a"] + i) % 3] for i in range(k)]
            virt = [[v, lik]]
        if op == "order":
            elim = ["MinFill", "MinWeight", None][s["a"] % 3]
        last = (op, s)

        def ask(engine):
            if kind == "sampling":
                evs = [State(v, x) for v, x in ev.items()]
                if op == "invalid":
                    return engine.rejection_sample(evidence=[State("no_such_variable", 0)], size=2, seed=3, show_progress=False)
                if ev:
                    return engine.likelihood_weighted_sample(evidence=evs, size=6, seed=s["a"], show_progress=False, n_jobs=1)
                return engine.forward_sample(size=6, seed=s["a"], show_progress=False, n_jobs=1)
            if op == "invalid":
                return engine.query(q, evidence={q[0]: spec["states"][J.idx[q[0]]][0]}, show_progress=False)
            if kind == "causal":
                return engine.query(q, do=None, evidence=ev or None, show_progress=False)
            kw = {}
            if virt:
                kw["virtual_evidence"] = _virtual_cpds(spec, virt)
            if op in ("map", "map_virtual"):
                return engine.map_query(q, evidence=ev or None, show_progress=False, **kw)
            if op == "max_calibrate" and kind == "bp":
                engine.max_calibrate()  # leaves max-marginal beliefs behind: the next sum query must not use them
            if elim is not None and kind == "ve":
                kw["elimination_order"] = elim
            return engine.query(q, evidence=ev or None, show_progress=False, **kw)

        def canon(r):
            import pandas as pd

            if isinstance(r, pd.DataFrame):
                return ("df", list(map(str, r.columns)), r.astype(object).values.tolist())
            if isinstance(r, dict):
                return ("map", sorted((repr(k), repr(v)) for k, v in r.items()))
            return ("factor", sorted((sorted(map(repr, k)), round(v, 10)) for k, v in factor_to_named(r).items()))

        out.evals += 1
        try:
            got = ask(eng)
            err = None
        except Exception as e:  # noqa: BLE001
            got, err = None, e
        try:
            fresh = ask(mk(build_bn(spec)))
            ferr = None
        except Exception as e:  # noqa: BLE001
            fresh, ferr = None, e
        tag = f"{kind}.{op}" + ("[after_virtual_evidence]" if seen_virtual else "")
        if (err is None) != (ferr is None):
            out.fail(f"{tag}:shared_engine_and_fresh_engine_disagree_on_raising", f"shared: {err!r}; fresh: {ferr!r}")
            return
        if err is None:
            if canon(got) != canon(fresh):
                out.fail(f"{tag}:answer_differs_from_fresh_engine", f"q={q} ev={ev} virtual={virt}: {canon(got)} vs {canon(fresh)}")
                return
            # asking again gives the same answer
            try:
                again = ask(eng)
            except Exception as e:  # noqa: BLE001
                out.fail(f"{tag}:second_ask_raised {type(e).__name__}", str(e))
                return
            if canon(again) != canon(got):
                out.fail(f"{tag}:same_question_twice_differs", f"q={q} ev={ev} virtual={virt}")
                return
            if kind in ("ve", "bp") and op in ("plain", "evidence", "virtual", "order", "max_calibrate"):
                want = J.marginal(q, ev, [(v, l) for v, l in virt])
                d = compare_named(factor_to_named(got), want)
                if d:
                    out.fail(f"{tag}:value", d)
                    return
        if seen_virtual and op != "virtual":
            out.nontrivial = True
            out.cls("question_after_virtual_evidence")
        if op in ("virtual", "map_virtual") and virt:
            seen_virtual = True
        if op == "invalid":
            out.cls("invalid_question_in_history")
    out.sample = {"engine": kind, "nodes": nodes, "ops": [s["op"] for s in case["steps"]]}


# ---------------------------------------------------------------------------------------------- relabelling
@st.composite
def relabel_case(draw):
    case = draw(query_case(max_nodes=5, name_kinds=("str",), allow_virtual=False))
    spec = case["spec"]
    n = len(spec["nodes"])
    newnames = list(draw(st.permutations(["z9", "Y", "m_1", "aa", "K0", "q", "Zz"])))[:n]  # up to 5 nodes + 2 twin sensors
    name_kind = draw(st.sampled_from(["str", "int", "tuple"]))
    state_perms = [list(draw(st.permutations(list(range(k))))) for k in spec["card"]]
    rename_states = draw(st.booleans())
    return dict(case, newnames=newnames, new_name_kind=name_kind, state_perms=state_perms, rename_states=rename_states,
                node_order=list(draw(st.permutations(list(range(n))))), seed=draw(st.integers(0, 99)))


def _relabelled(case):
    """second spec: variables renamed, states permuted (and renamed), insertion orders changed; plus the maps back"""
    spec = case["spec"]
    nodes = spec["nodes"]
    n = len(nodes)
    nn = case["newnames"]
    if case["new_name_kind"] == "int":
        nn = [10 - i for i in range(n)]
    elif case["new_name_kind"] == "tuple":
        nn = [("v", n - i) for i in range(n)]
    vmap = dict(zip(nodes, nn))
    idx = {v: i for i, v in enumerate(nodes)}
    perms = case["state_perms"]
    new_states, smap = [], {}
    for i, v in enumerate(nodes):
        old = spec["states"][i]
        perm = perms[i]
        ns = [(f"r{old[j]}" if case["rename_states"] else old[j]) for j in perm]
        new_states.append(ns)
        for j in perm:
            smap[(v, old[j])] = (f"r{old[j]}" if case["rename_states"] else old[j])
    order = case["node_order"]
    cpds = []
    for c in reversed(spec["cpds"]):
        v = c["var"]
        ps = list(reversed(c["parents"]))
        old_cfgs = list(itertools.product(*[range(spec["card"][idx[p]]) for p in c["parents"]]))
        col_of = {cfg: j for j, cfg in enumerate(old_cfgs)}
        new_cfgs = list(itertools.product(*[range(spec["card"][idx[p]]) for p in ps]))
        table = []
        for i_new in range(spec["card"][idx[v]]):
            i_old = perms[idx[v]][i_new]
            row = []
            for cfg in new_cfgs:
                # new state index -> old state index per parent, then back to the old parent order
                old_by_parent = {p: perms[idx[p]][s] for p, s in zip(ps, cfg)}
                row.append(c["table"][i_old][col_of[tuple(old_by_parent[p] for p in c["parents"])]])
            table.append(row)
        cpds.append({"var": vmap[v], "parents": [vmap[p] for p in ps], "table": table})
    spec2 = {"name_kind": case["new_name_kind"], "shape": spec["shape"], "nodes": [vmap[nodes[i]] for i in order], "topo": [vmap[v] for v in spec["topo"]],
             "edges": [[vmap[u], vmap[v]] for u, v in reversed(spec["edges"])], "latents": [], "card": [spec["card"][i] for i in order],
             "states": [new_states[i] for i in order], "cpds": cpds, "explicit_states": True}
    return spec2, vmap, smap


def check_relabel(case, out):
    from pgmpy.inference import BeliefPropagation, CausalInference, VariableElimination

    from .c03 import _moral_connected

    spec = case["spec"]
    spec2, vmap, smap = _relabelled(case)
    q = case["query"]
    ev = {v: s for v, s in case["evidence"]}
    q2 = [vmap[v] for v in q]
    ev2 = {vmap[v]: smap[(v, s)] for v, s in ev.items()}
    m1 = out.call("build", build_bn, spec)
    m2 = out.call("build[relabelled]", build_bn, spec2)
    if m1 is RAISED or m2 is RAISED:
        return
    out.cls(f"to_{case['new_name_kind']}", "states_renamed" if case["rename_states"] else "states_permuted")
    sorted_changed = sorted(spec["nodes"]) != [v for v in sorted(spec["nodes"], key=lambda x: repr(vmap[x]))]
    out.nontrivial = sorted_changed or len(q) >= 2
    if sorted_changed:
        out.cls("sort_order_of_variables_changed")
    if len(q) >= 2:
        out.cls("result_scope_of_several_variables")
    inv_v = {b: a for a, b in vmap.items()}
    inv_s = {}
    for (v, s), s2 in smap.items():
        inv_s[(vmap[v], s2)] = s

    def back(named):
        return {frozenset((inv_v[v], inv_s[(v, s)]) for v, s in k): p for k, p in named.items()}

    out.evals = 0
    engines = [("ve", VariableElimination)]
    if _moral_connected(spec):
        engines.append(("bp", BeliefPropagation))
    for name, E in engines:
        r1 = out.call(f"{name}.query", lambda: E(m1).query(list(q), evidence=dict(ev) or None, show_progress=False))
        r2 = out.call(f"{name}.query[relabelled]", lambda: E(m2).query(list(q2), evidence=dict(ev2) or None, show_progress=False))
        out.evals += 2
        if r1 is RAISED or r2 is RAISED:
            continue
        d = compare_named(back(factor_to_named(r2)), factor_to_named(r1))
        if d:
            out.fail(f"{name}.query:changes_under_relabelling", d)
        a1 = out.call(f"{name}.map_query", lambda: E(m1).map_query(list(q), evidence=dict(ev) or None, show_progress=False))
        a2 = out.call(f"{name}.map_query[relabelled]", lambda: E(m2).map_query(list(q2), evidence=dict(ev2) or None, show_progress=False))
        out.evals += 2
        if a1 is not RAISED and a2 is not RAISED:
            post = factor_to_named(r1)
            k1 = frozenset((v, s) for v, s in a1.items())
            k2 = frozenset((inv_v[v], inv_s[(v, s)]) for v, s in a2.items())
            if abs(post.get(k1, -1) - post.get(k2, -2)) > 1e-9:
                out.fail(f"{name}.map_query:changes_under_relabelling", f"{a1} vs {a2}")
    if case["new_name_kind"] == "str":
        r1 = out.call("causal.query", lambda: CausalInference(m1).query(list(q), do=None, evidence=dict(ev) or None, show_progress=False))
        r2 = out.call("causal.query[relabelled]", lambda: CausalInference(m2).query(list(q2), do=None, evidence=dict(ev2) or None, show_progress=False))
        if r1 is not RAISED and r2 is not RAISED:
            d = compare_named(back(factor_to_named(r2)), factor_to_named(r1))
            if d:
                out.fail("causal.query:changes_under_relabelling", d)
    # samplers with the same seed: same rows after mapping back? (state *numbers* are drawn, so permuting the state
    # order legitimately changes the draw; only renaming is compared)
    if all(p == list(range(len(p))) for p in case["state_perms"]) and case["node_order"] == sorted(case["node_order"]):
        out.cls("pure_renaming")
    out.sample = {"nodes": spec["nodes"], "new": spec2["nodes"], "query": q}


@st.composite
def relabel_data_case(draw):
    ds = draw(gen.data_spec(min_cols=2, max_cols=4, min_rows=5, max_rows=40, min_card=2, max_card=3, kinds=("int",), extra_states=False))
    ds["pass_state_names"] = False
    dag = draw(dag_over(ds["columns"]))
    cols = ds["columns"]
    return {"data": ds, "dag": dag, "newcols": list(draw(st.permutations(["zz", "M", "a1", "Q_", "b"])))[: len(cols)],
            "col_order": list(draw(st.permutations(list(range(len(cols)))))), "row_order": list(draw(st.permutations(list(range(len(ds["rows"]))))))}


def check_relabel_data(case, out):
    from pgmpy.estimators import BDeuScore, BicScore, K2Score, MaximumLikelihoodEstimator
    from pgmpy.estimators.CITests import chi_square
    from pgmpy.models import BayesianNetwork

    ds, dag = case["data"], case["dag"]
    cols = ds["columns"]
    cmap = dict(zip(cols, case["newcols"]))
    df1 = build_frame(ds)
    ds2 = dict(ds, columns=[cmap[c] for c in cols])
    df2 = build_frame(ds2, row_order=case["row_order"], col_order=[cmap[cols[i]] for i in case["col_order"]])

    def mk(names, edges):
        m = BayesianNetwork()
        m.add_nodes_from(names)
        m.add_edges_from(edges)
        return m

    m1 = mk(dag["nodes"], [tuple(e) for e in dag["edges"]])
    m2 = mk([cmap[v] for v in reversed(dag["nodes"])], [(cmap[u], cmap[v]) for u, v in reversed(dag["edges"])])
    out.nontrivial = len(cols) >= 3 and sorted(cols) != sorted(cols, key=lambda c: cmap[c])
    out.evals = 0
    for name, S in (("k2", K2Score), ("bdeu", BDeuScore), ("bic", BicScore)):
        a = out.call(f"{name}.score", lambda: S(df1).score(m1))
        b = out.call(f"{name}.score[relabelled]", lambda: S(df2).score(m2))
        out.evals += 2
        if a is not RAISED and b is not RAISED and abs(float(a) - float(b)) > 1e-8 * max(1.0, abs(float(a))):
            out.fail(f"{name}.score:changes_under_relabelling", f"{float(a)!r} vs {float(b)!r}")
    p1 = out.call("mle", lambda: MaximumLikelihoodEstimator(m1, df1).get_parameters(n_jobs=1))
    p2 = out.call("mle[relabelled]", lambda: MaximumLikelihoodEstimator(m2, df2).get_parameters(n_jobs=1))
    out.evals += 2
    if p1 is not RAISED and p2 is not RAISED:
        from .c06 import cpd_named

        inv = {b: a for a, b in cmap.items()}
        t1 = {c.variable: cpd_named(c) for c in p1}
        t2 = {inv[c.variable]: {(k[0], frozenset((inv[v], s) for v, s in k[1])): p for k, p in cpd_named(c).items()} for c in p2}
        if set(t1) != set(t2) or any(set(t1[v]) != set(t2[v]) or any(abs(t1[v][k] - t2[v][k]) > 1e-9 for k in t1[v]) for v in t1):
            out.fail("mle:changes_under_relabelling", "")
    if len(cols) >= 3:
        a = out.call("chi_square", lambda: chi_square(cols[0], cols[1], [cols[2]], df1, boolean=False))
        b = out.call("chi_square[relabelled]", lambda: chi_square(cmap[cols[0]], cmap[cols[1]], [cmap[cols[2]]], df2, boolean=False))
        out.evals += 2
        if a is not RAISED and b is not RAISED and (abs(a[0] - b[0]) > 1e-8 * max(1.0, abs(a[0])) or a[2] != b[2]):
            out.fail("chi_square:changes_under_relabelling", f"{a} vs {b}")
    out.sample = {"columns": cols, "new": case["newcols"][: len(cols)]}


# ---------------------------------------------------------------------------------------------- hash-seed sweep
def check_sweep(case, out):
    """every shard evaluates the same cases (same Hypothesis seed) under a different PYTHONHASHSEED; the runner
    compares the canonical answers across shards"""
    from pgmpy.estimators import HillClimbSearch, MaximumLikelihoodEstimator, PC
    from pgmpy.inference import BeliefPropagation, VariableElimination
    from pgmpy.readwrite import UAIReader, UAIWriter

    from .c03 import _moral_connected

    spec = case["spec"]
    q = case["query"]
    ev = {v: s for v, s in case["evidence"]}
    ans = {}
    model = build_bn(spec)
    out.nontrivial = len(spec["nodes"]) >= 3
    out.evals = 0

    def canon_factor(f):
        return sorted((sorted(map(repr, k)), round(v, 9)) for k, v in factor_to_named(f).items())

    r = out.call("sweep:ve.query", lambda: VariableElimination(model).query(list(q), evidence=dict(ev) or None, show_progress=False))
    if r is not RAISED:
        ans["ve.query"] = canon_factor(r)
    r = out.call("sweep:ve.query[None]", lambda: VariableElimination(model).query(list(q), evidence=dict(ev) or None, elimination_order=None, show_progress=False))
    if r is not RAISED:
        ans["ve.query[None]"] = canon_factor(r)
    if _moral_connected(spec):
        r = out.call("sweep:bp.query", lambda: BeliefPropagation(model).query(list(q), evidence=dict(ev) or None, show_progress=False))
        if r is not RAISED:
            ans["bp.query"] = canon_factor(r)
        jt = out.call("sweep:to_junction_tree", model.to_junction_tree)
        if jt is not RAISED:
            ans["jt.partition_function"] = round(float(jt.get_partition_function()), 9)
    r = out.call("sweep:map_query", lambda: VariableElimination(model).map_query(list(q), evidence=dict(ev) or None, show_progress=False))
    if r is not RAISED:
        post = factor_to_named(VariableElimination(model).query(list(q), evidence=dict(ev) or None, show_progress=False))
        ans["map_query.posterior_of_answer"] = round(post[frozenset(r.items())], 9)
    if spec["name_kind"] in ("str", "word"):
        w = out.call("sweep:uai_roundtrip", lambda: UAIReader(string=str(UAIWriter(model))).get_model())
        if w is not RAISED:
            from .c09 import named_cpds_of_model

            # UAI variable numbering is deterministic (sorted by cardinality and name), so the named conditionals of
            # the model read back must not depend on the hash seed
            ans["uai.named_conditionals"] = sorted((v, sorted((k[0], sorted(map(list, k[1])), round(p, 12)) for k, p in tab.items())) for v, tab in named_cpds_of_model(w).items())
    out.evals = len(ans)
    out.answer = ans
    out.sample = {"nodes": spec["nodes"], "query": q, "answers": sorted(ans)}


# ---------------------------------------------------------------------------------------------- torch backend
def _cmp_torch(out, tag, got, want, atol):
    d = compare_named(got, want, rtol=1e-8, atol=atol)
    if d:
        # known finding torch-backend-float32-rounding: inputs pass through torch.Tensor (float32) before the cast to float64
        loose = compare_named(got, want, rtol=5e-7, atol=max(atol, 1e-7))
        out.fail(f"{tag}:differs_from_reference" + ("[float32_rounding]" if loose is None else ""), d)


def check_torch(case, out):
    from pgmpy import config
    from pgmpy.inference import BeliefPropagation, VariableElimination

    from .c03 import _moral_connected
    from .c04 import Ref, build as build_factor

    spec = case["spec"]
    q = case["query"]
    ev = {v: s for v, s in case["evidence"]}
    J = Joint.from_bn(spec)
    want = J.marginal(q, ev)
    out.nontrivial = len(q) >= 2 or bool(ev)
    out.evals = 0
    try:
        config.set_backend("torch", device="cpu")
        model = out.call("torch:build", build_bn, spec)
        if model is RAISED:
            return

        def named_t(f):
            import numpy as np

            vals = f.values.detach().cpu().numpy() if hasattr(f.values, "detach") else np.asarray(f.values)
            names = [f.state_names[v] for v in f.variables]
            return {frozenset((v, names[i][j]) for i, (v, j) in enumerate(zip(f.variables, idxs))): float(vals[idxs]) for idxs in itertools.product(*[range(len(s)) for s in names])}

        for elim in ("greedy", "MinFill"):
            r = out.call(f"torch:ve.query[{elim}]", lambda: VariableElimination(model).query(list(q), evidence=dict(ev) or None, elimination_order=elim, show_progress=False))
            out.evals += 1
            if r is not RAISED:
                _cmp_torch(out, f"torch:ve.query[{elim}]", named_t(r), want, 1e-9)
        if _moral_connected(spec):
            r = out.call("torch:bp.query", lambda: BeliefPropagation(model).query(list(q), evidence=dict(ev) or None, show_progress=False))
            out.evals += 1
            if r is not RAISED:
                _cmp_torch(out, "torch:bp.query", named_t(r), want, 1e-9)
        # factor algebra: product / marginalize / reduce of the CPD factors under torch equal the joint reference
        fs = [c.to_factor() for c in model.get_cpds()]
        prod = out.call("torch:factor_product", lambda: __import__("pgmpy").factors.factor_product(*fs))
        out.evals += 1
        if prod is not RAISED:
            full = J.marginal(list(prod.variables), normalize=False)
            _cmp_torch(out, "torch:factor_product", named_t(prod), full, 1e-12)
            if len(prod.variables) >= 2:
                mg = out.call("torch:marginalize", prod.marginalize, [prod.variables[0]], inplace=False)
                if mg is not RAISED:
                    _cmp_torch(out, "torch:marginalize", named_t(mg), J.marginal(list(mg.variables), normalize=False), 1e-12)
    finally:
        config.set_backend("numpy")
    out.sample = {"nodes": spec["nodes"], "query": q}


# ------------------------------------------------------------------------------ structure-search engine histories
SEARCH_STEPS = [["k2"], ["bdeu", 1.0], ["bdeu", 50.0], ["bic"], ["aic"], ["bds", 2.0], ["bdeu", 1000.0], ["name:k2"], ["name:bic"], ["name:bdeu"]]


@st.composite
def search_history_case(draw):
    ds = draw(gen.data_spec(min_cols=3, max_cols=4, min_rows=12, max_rows=30, min_card=2, max_card=3, kinds=("int",), extra_states=False, dependent=True))
    ds["pass_state_names"] = False
    steps = draw(st.lists(st.sampled_from(SEARCH_STEPS), min_size=2, max_size=3))
    return {"data": ds, "steps": steps, "use_cache": draw(st.sampled_from([True, True, False]))}


def run_search_engine(case, out):
    """one HillClimbSearch object asked several times (scorers of the same class with other hyper-parameters included):
    every answer equals that of a fresh object"""
    from pgmpy.estimators import AICScore, BDeuScore, BDsScore, BicScore, HillClimbSearch, K2Score

    df = build_frame(case["data"])

    def scorer(step, frame):
        if step[0].startswith("name:"):
            return step[0][5:]
        return {"k2": lambda: K2Score(frame), "bic": lambda: BicScore(frame), "aic": lambda: AICScore(frame),
                "bdeu": lambda: BDeuScore(frame, equivalent_sample_size=step[1]), "bds": lambda: BDsScore(frame, equivalent_sample_size=step[1])}[step[0]]()

    shared = out.call("HillClimbSearch", HillClimbSearch, df, use_cache=case["use_cache"])
    if shared is RAISED:
        return
    out.evals = 0
    seen = set()
    for i, step in enumerate(case["steps"]):
        tag = f"hc.estimate[{step[0]}]" + ("[same_class_other_hyperparameter]" if step[0] in seen and len(step) > 1 else "")
        seen.add(step[0])
        got = out.call(tag, lambda: shared.estimate(scoring_method=scorer(step, df), show_progress=False, max_iter=50))
        fresh_engine = HillClimbSearch(build_frame(case["data"]), use_cache=case["use_cache"])
        fresh = out.call(tag + "[fresh]", lambda: fresh_engine.estimate(scoring_method=scorer(step, fresh_engine.data), show_progress=False, max_iter=50))
        out.evals += 2
        if got is RAISED or fresh is RAISED:
            return
        if sorted(map(tuple, got.edges())) != sorted(map(tuple, fresh.edges())):
            out.fail(f"{tag}:answer_differs_from_fresh_engine", f"step {i} of {case['steps']}: {sorted(got.edges())} vs {sorted(fresh.edges())}")
            return
    out.nontrivial = len({tuple(s_) for s_ in case["steps"]}) >= 2
    out.sample = {"columns": case["data"]["columns"], "steps": case["steps"], "use_cache": case["use_cache"]}


def check_purity_factor_ops(case, out):
    """factor operations leave their operands alone: the C04 operation cases, keeping only the purity verdicts (operand
    modified by an out-of-place call, result sharing storage with an operand); values are C04's business"""
    from ..core import Out
    from . import c04

    inner = Out()
    c04.check_op(case, inner)
    out.nontrivial, out.evals, out.sample = inner.nontrivial, inner.evals, inner.sample
    out.cls(*inner.classes)
    for label, detail in inner.failures:
        if "operand_modified" in label or "aliases_operand" in label:
            out.fail(label, detail)


SUBCHECKS = [
    Sub("purity_factor_ops", check_purity_factor_ops, strategy=lambda tier: __import__("vf.props.c04", fromlist=["fcase"]).fcase(),
        n={"quick": 250, "thorough": 4000}, shards={"quick": 4, "thorough": 8},
        doc="DiscreteFactor operations (product, sum, divide, marginalize, reduce, maximize, normalize, ...) do not modify their operands and do not alias them"),
    Sub("purity_bn", check_purity_bn, strategy=lambda tier: query_case(max_nodes=5), n={"quick": 40, "thorough": 600},
        shards={"quick": 8, "thorough": 16}, doc="~45 inference / sampling / export / conversion calls leave the Bayesian network passed to them unchanged"),
    Sub("purity_data", check_purity_data, strategy=lambda tier: data_case(), n={"quick": 12, "thorough": 200},
        shards={"quick": 8, "thorough": 16}, doc="scores, estimators, structure searches, CI tests, predict leave data frames, models and start graphs unchanged"),
    Sub("purity_mn", check_purity_mn, strategy=lambda tier: mn_case(), n={"quick": 60, "thorough": 800},
        shards={"quick": 2, "thorough": 8}, doc="Markov-network inference, conversions and factor helpers leave the model and its factors unchanged"),
    Sub("search_engine_history", run_search_engine, strategy=lambda tier: search_history_case(), n={"quick": 25, "thorough": 400}, shards={"quick": 6, "thorough": 8},
        doc="several estimate() calls on one HillClimbSearch object (different scorers, same scorer class with other hyper-parameters) vs fresh objects"),
    Sub("engine_history", run_engine, strategy=lambda tier: engine_case(), n={"quick": 120, "thorough": 2000},
        shards={"quick": 8, "thorough": 16}, doc="question sequences on one shared engine vs a fresh engine on a fresh model; same question twice"),
    Sub("relabel", check_relabel, strategy=lambda tier: relabel_case(), n={"quick": 100, "thorough": 1500},
        shards={"quick": 6, "thorough": 16}, doc="exact inference answers unchanged under renaming of variables/states, state permutation and insertion-order changes"),
    Sub("relabel_data", check_relabel_data, strategy=lambda tier: relabel_data_case(), n={"quick": 60, "thorough": 800},
        shards={"quick": 4, "thorough": 8}, doc="scores, ML estimates and CI statistics unchanged under column renaming and row/column/edge order changes"),
    Sub("hashseed_sweep", check_sweep, strategy=lambda tier: query_case(max_nodes=5, allow_virtual=False), n={"quick": 40, "thorough": 400},
        shards={"quick": 8, "thorough": 8}, sweep=True, doc="identical cases under 8 PYTHONHASHSEED values in fresh interpreters: canonical answers must coincide"),
    Sub("torch_backend", check_torch, strategy=lambda tier: query_case(max_nodes=5, name_kinds=("str", "word"), allow_virtual=False), n={"quick": 40, "thorough": 500},
        shards={"quick": 4, "thorough": 8}, doc="exact inference and factor algebra under config.set_backend('torch') equal the reference"),
]
PREDICATES = {}
