"""C03 — MAP queries return a maximiser of the exact posterior."""
from hypothesis import strategies as st

from .. import gen
from ..core import RAISED, Sub
from ..oracle.joint import Joint
from ..spec import build_bn, build_mn
from .c01 import _virtual_cpds, query_case

RULE = (
    "cases = Bayesian-network specs (as C01: 1-6 nodes, all name kinds, zeros/deterministic columns) and "
    "Markov-network specs (2-6 nodes, duplicate factors, any connectivity) x non-empty query set x constructed "
    "positive-probability evidence x virtual evidence (BN); VariableElimination.map_query under 6 elimination "
    "options, BeliefPropagation.map_query on connected models, BayesianNetwork.predict on small frames. Oracle = "
    "brute-force posterior table over the query variables; the returned assignment must attain its maximum "
    "(ties free). non-trivial = the posterior over the query has >= 2 distinct values and a unique maximiser "
    "and marginal-MAP differs from the projection of the joint MPE or evidence is present; distinct = sha1."
)
ASSUMPTIONS = [
    "P(evidence) > 0 by construction; explicit elimination orders are complete permutations",
    "optimality: posterior(returned) >= p_max*(1-1e-9) - 1e-12, ties are free",
    "BeliefPropagation is used only on models whose interaction graph is connected",
    "predict(): integer / string state names, n_jobs=1, at most 4 distinct rows",
]
ELIM = ["MinFill", "MinNeighbors", "MinWeight", "WeightedMinFill", None, "explicit"]


def _moral_connected(spec):
    from ..oracle.dsep import G
    from .c13 import _connected_moral

    return _connected_moral(G(spec["nodes"], spec["edges"]))


def _judge(out, tag, res, query, post, states_of):
    if not isinstance(res, dict) or set(res.keys()) != set(query) or len(res) != len(query):
        out.fail(f"{tag}:keys", f"got {list(res) if isinstance(res, dict) else type(res)} want {query}")
        return
    for v in query:
        if res[v] not in states_of(v) or not any(type(res[v]) is type(s) and res[v] == s for s in states_of(v)):
            # numpy scalars are tolerated as long as they equal a state name
            if not any(res[v] == s for s in states_of(v)):
                out.fail(f"{tag}:not_a_state_name", f"{v!r}: {res[v]!r} not in {states_of(v)}")
                return
    key = frozenset((v, _canon(res[v], states_of(v))) for v in query)
    pmax = max(post.values())
    p = post.get(key)
    if p is None:
        out.fail(f"{tag}:unknown_assignment", f"{res}")
        return
    if not p >= pmax * (1 - 1e-9) - 1e-12:
        best = max(post, key=post.get)
        out.fail(f"{tag}:not_a_maximiser", f"returned {dict(res)} with posterior {p!r}; maximum {pmax!r} at {sorted(map(str, best))}")


def _canon(val, states):
    for s in states:
        if val == s:
            return s
    return val


def check_bn(case, out):
    from pgmpy.inference import BeliefPropagation, VariableElimination

    spec = case["spec"]
    query = case["query"]
    evidence = {v: s for v, s in case["evidence"]}
    virtual = case["virtual"]
    J = Joint.from_bn(spec)
    post = J.marginal(query, evidence, [(v, lik) for v, lik in virtual])
    vals = sorted(post.values(), reverse=True)
    unique_max = len(vals) == 1 or vals[0] > vals[1] * (1 + 1e-6) + 1e-12
    out.cls(f"names_{spec['name_kind']}", "unique_max" if unique_max else "tie")
    # does max-product (projection of the joint MPE) differ from the marginal MAP?  (kills "maximise instead of sum")
    full = J.marginal(list(spec["nodes"]), None, [(v, lik) for v, lik in virtual]) if not evidence else None
    if full is not None and len(query) < len(spec["nodes"]):
        mpe = max(full, key=full.get)
        proj = frozenset(p for p in mpe if p[0] in query)
        if post[proj] < vals[0] * (1 - 1e-6):
            out.cls("marginal_map_differs_from_mpe_projection")
    out.nontrivial = unique_max and len(set(round(v, 12) for v in vals)) >= 2 and (bool(evidence) or bool(virtual) or len(query) < len(spec["nodes"]))
    model = out.call("build", build_bn, spec)
    if model is RAISED:
        return
    idx = J.idx
    states_of = lambda v: spec["states"][idx[v]]  # noqa: E731
    out.evals = 0
    for elim in ELIM:
        eo = case["explicit_order"] if elim == "explicit" else elim
        ve = VariableElimination(model)
        kw = dict(variables=list(query), evidence=dict(evidence) or None, elimination_order=eo, show_progress=False)
        if virtual:
            kw["virtual_evidence"] = _virtual_cpds(spec, virtual)
        res = out.call(f"ve.map_query[{elim}]", ve.map_query, **kw)
        out.evals += 1
        if res is not RAISED:
            _judge(out, f"ve.map_query[{elim}]", res, query, post, states_of)
    if _moral_connected(spec):
        out.cls("bp_used")
        bp = out.call("BeliefPropagation", BeliefPropagation, model)
        if bp is not RAISED:
            kw = dict(variables=list(query), evidence=dict(evidence) or None, show_progress=False)
            if virtual:
                kw["virtual_evidence"] = _virtual_cpds(spec, virtual)
            res = out.call("bp.map_query", bp.map_query, **kw)
            out.evals += 1
            if res is not RAISED:
                _judge(out, "bp.map_query", res, query, post, states_of)
    out.sample = {"nodes": spec["nodes"], "edges": spec["edges"], "query": query, "evidence": case["evidence"], "virtual": virtual}


@st.composite
def mn_case(draw):
    spec = draw(gen.mn_spec(min_nodes=2, max_nodes=6, connected=draw(st.booleans())))
    J = Joint.from_factors(spec["nodes"], spec["states"], spec["factors"])
    nodes = spec["nodes"]
    support = sorted(J.support_assignments())
    a = support[draw(st.integers(0, len(support) - 1))]
    order = list(draw(st.permutations(nodes)))
    nq = draw(st.integers(1, min(3, len(nodes))))
    query, rest = order[:nq], order[nq:]
    ne = draw(st.integers(0, min(2, len(rest))))
    evidence = [[v, spec["states"][J.idx[v]][a[J.idx[v]]]] for v in rest[:ne]]
    explicit = list(draw(st.permutations(rest[ne:])))
    return {"spec": spec, "query": query, "evidence": evidence, "explicit_order": explicit}


def check_mn(case, out):
    from pgmpy.inference import BeliefPropagation, VariableElimination

    from ..gen import _components

    spec = case["spec"]
    query = case["query"]
    evidence = {v: s for v, s in case["evidence"]}
    J = Joint.from_factors(spec["nodes"], spec["states"], spec["factors"])
    post = J.marginal(query, evidence)
    vals = sorted(post.values(), reverse=True)
    unique_max = len(vals) == 1 or vals[0] > vals[1] * (1 + 1e-6) + 1e-12
    out.nontrivial = unique_max and len(set(round(v, 12) for v in vals)) >= 2
    out.cls(f"names_{spec['name_kind']}", "unique_max" if unique_max else "tie")
    if spec.get("has_duplicate"):
        out.cls("duplicate_factor")
    model = out.call("build", build_mn, spec)
    if model is RAISED:
        return
    states_of = lambda v: spec["states"][J.idx[v]]  # noqa: E731
    out.evals = 0
    for elim in ("MinFill", None, "explicit"):
        eo = case["explicit_order"] if elim == "explicit" else elim
        ve = out.call("VariableElimination", VariableElimination, model)
        if ve is RAISED:
            return
        res = out.call(f"mn.ve.map_query[{elim}]", ve.map_query, variables=list(query), evidence=dict(evidence) or None, elimination_order=eo, show_progress=False)
        out.evals += 1
        if res is not RAISED:
            _judge(out, f"mn.ve.map_query[{elim}]" + ("[duplicate_factor]" if spec.get("has_duplicate") else ""), res, query, post, states_of)
    if len(_components(spec["nodes"], [tuple(e) for e in spec["edges"]])) == 1:
        bp = out.call("BeliefPropagation", BeliefPropagation, model)
        if bp is not RAISED:
            res = out.call("mn.bp.map_query", bp.map_query, variables=list(query), evidence=dict(evidence) or None, show_progress=False)
            out.evals += 1
            if res is not RAISED:
                _judge(out, "mn.bp.map_query", res, query, post, states_of)
    out.sample = {"nodes": spec["nodes"], "factors": [f["vars"] for f in spec["factors"]], "query": query, "evidence": case["evidence"]}


@st.composite
def predict_case(draw):
    spec = draw(gen.bn_spec(min_nodes=2, max_nodes=5, name_kinds=("str", "word"), state_kinds=("range", "offset", "perm", "str"), min_card=2))
    nodes = spec["nodes"]
    J = Joint.from_bn(spec)
    order = list(draw(st.permutations(nodes)))
    nm = draw(st.integers(1, min(3, len(nodes) - 1)))
    missing, given = order[:nm], order[nm:]
    support = sorted(J.support_assignments())
    rows = []
    for _ in range(draw(st.integers(1, 4))):
        a = support[draw(st.integers(0, len(support) - 1))]
        rows.append([spec["states"][J.idx[v]][a[J.idx[v]]] for v in given])
    dup = draw(st.booleans())
    if dup:
        rows.append(rows[0])
    return {"spec": spec, "missing": missing, "given": given, "rows": rows}


def check_predict(case, out):
    import pandas as pd

    spec = case["spec"]
    J = Joint.from_bn(spec)
    model = out.call("build", build_bn, spec)
    if model is RAISED:
        return
    given, missing = case["given"], case["missing"]
    df = pd.DataFrame(case["rows"], columns=given)
    out.cls(f"missing{len(missing)}", f"rows{len(case['rows'])}")
    res = out.call("predict", model.predict, df, n_jobs=1)
    if res is RAISED:
        return
    if set(res.columns) != set(missing) or len(res) != len(df):
        out.fail("predict:shape", f"columns={list(res.columns)} rows={len(res)} want {missing} x {len(df)}")
        return
    states_of = lambda v: spec["states"][J.idx[v]]  # noqa: E731
    out.evals = len(df)
    for i, row in enumerate(case["rows"]):
        ev = dict(zip(given, row))
        post = J.marginal(missing, ev)
        vals = sorted(post.values(), reverse=True)
        if len(vals) > 1 and vals[0] > vals[1] * (1 + 1e-6):
            out.nontrivial = True
        got = {v: res.iloc[i][v] for v in missing}
        got = {v: (x.item() if hasattr(x, "item") else x) for v, x in got.items()}
        _judge(out, "predict", got, missing, post, states_of)
    out.sample = {"nodes": spec["nodes"], "missing": missing, "rows": case["rows"]}


THOROUGH_SCALE = 5  # thorough-tier example counts are n["thorough"] x this (one thorough run then takes roughly 5-10 minutes on 16 cores)
SUBCHECKS = [
    Sub("bn_map", check_bn, strategy=lambda tier: query_case(), n={"quick": 200, "thorough": 3000},
        shards={"quick": 8, "thorough": 16}, doc="VariableElimination.map_query (6 elimination options) and BeliefPropagation.map_query on Bayesian networks with hard/virtual evidence"),
    Sub("mn_map", check_mn, strategy=lambda tier: mn_case(), n={"quick": 150, "thorough": 2000},
        shards={"quick": 4, "thorough": 8}, doc="map_query on Markov networks (duplicate factors, evidence) by VE and BP"),
    Sub("predict", check_predict, strategy=lambda tier: predict_case(), n={"quick": 60, "thorough": 600},
        shards={"quick": 4, "thorough": 8}, doc="BayesianNetwork.predict rows are maximisers of P(missing | row)"),
]
PREDICATES = {}
