"""C15 — models stay structurally consistent under any edit history."""
import itertools

from hypothesis import strategies as st

from .. import gen
from ..core import RAISED, Sub
from ..oracle.cpdag import is_acyclic
from ..oracle.joint import Joint

RULE = (
    "histories = Hypothesis-generated lists of edit steps (whole sequence shrinks as one value) interpreted against "
    "the real object and a plain-Python model: BayesianNetwork (add_node(s), add_edge(s) incl. self-loops, "
    "cycle-closing and unknown endpoints, remove_node(s), add_cpds consistent / stale / foreign scope / replacing, "
    "remove_cpds by object and by name, do in and out of place, copy into a pool of live siblings, get_random_cpds, "
    "check_model, queries; node names str / int / tuple), DAG and BayesianNetwork construction from edge lists, "
    "DynamicBayesianNetwork (edges within a slice - written at slice 0, 1 or a later one -, to the next slice, backwards, over several slices, malformed; "
    "copy), MarkovNetwork and JunctionTree (edges closing cycles or joining disjoint cliques, factors, copy). After "
    "every step: acyclicity, real == model for every live sibling (nodes, edges, latents, CPDs by named "
    "assignment), a rejected single-element operation leaves the object unchanged, CPDs after remove_node / do are "
    "distributions over exactly the remaining graph parents. non-trivial = the history contains a copy followed by "
    "an edit of either side, or a do / remove_node on a node that has parents and children with CPDs."
)
ASSUMPTIONS = [
    "'single operation' = a single-element call; add_edges_from / remove_nodes_from are modelled as the sequence of their elements (a prefix may be applied)",
    "a step whose outcome differs from the model ends the history (later steps would only echo the divergence)",
    "remove_node / do on a model whose CPDs do not match the graph (stale CPDs) is judged only for atomicity",
]

OPS = ["add_node", "add_node", "add_nodes_from", "add_edge", "add_edge", "add_edge", "add_edges_from", "remove_node", "remove_nodes_from",
       "add_cpd", "add_cpd", "add_cpd", "add_cpd", "remove_cpd", "do", "do", "copy", "copy", "random_cpds", "check_model", "query"]
POOLS = {"str": ["A", "B", "C", "D", "E"], "int": [0, 1, 2, 3, 4], "tuple": [("a", 0), ("a", 1), ("b", 0), ("b", 1), ("c", 2)]}


@st.composite
def step(draw):
    return {"op": draw(st.sampled_from(OPS)), "a": draw(st.integers(0, 9)), "b": draw(st.integers(0, 9)), "c": draw(st.integers(0, 9)),
            "flag": draw(st.booleans()), "seed": draw(st.integers(0, 999))}


@st.composite
def bn_history(draw, max_steps=30):
    steps = draw(st.lists(step(), min_size=3, max_size=max_steps))
    if draw(st.booleans()):
        # scripted start: a small network with CPDs on every node, so that do / remove_node / copy meet a full model
        pre = [{"op": "add_edge", "a": a, "b": b, "c": 0, "flag": False, "seed": 7 + a + b} for a, b in [(0, 1), (1, 2), (0, 2), (2, 3)]]
        pre.append({"op": "random_cpds", "a": 0, "b": 0, "c": 0, "flag": True, "seed": 1})
        steps = pre + steps
    return {"kind": draw(st.sampled_from(["str", "str", "int", "tuple"])), "steps": steps}


# ---------------------------------------------------------------------------------------------- model
class M:
    def __init__(self):
        self.nodes, self.edges, self.latents, self.cpds, self.card = [], set(), set(), {}, {}

    def copy(self):
        m = M()
        m.nodes, m.edges, m.latents = list(self.nodes), set(self.edges), set(self.latents)
        m.cpds = {v: {"parents": list(c["parents"]), "table": [list(r) for r in c["table"]]} for v, c in self.cpds.items()}
        m.card = dict(self.card)
        return m

    def parents(self, v):
        return [u for (u, w) in self.edges if w == v]

    def children(self, v):
        return [w for (u, w) in self.edges if u == v]

    def has_path(self, a, b):
        seen, stack = set(), [a]
        while stack:
            x = stack.pop()
            if x == b:
                return True
            if x in seen:
                continue
            seen.add(x)
            stack.extend(self.children(x))
        return False

    def add_node(self, v):
        if v not in self.nodes:
            self.nodes.append(v)

    def named(self, v):
        """{(child_state, frozenset((parent, state))): p}"""
        c = self.cpds[v]
        out = {}
        cfgs = list(itertools.product(*[range(self.card[p]) for p in c["parents"]]))
        for j, cfg in enumerate(cfgs):
            for i in range(self.card[v]):
                out[(i, frozenset(zip(c["parents"], cfg)))] = c["table"][i][j]
        return out

    def consistent(self, v):
        return v in self.cpds and set(self.cpds[v]["parents"]) == set(self.parents(v))

    def valid(self):
        return all(self.consistent(v) for v in self.nodes) and set(self.cpds) <= set(self.nodes)

    def marginalize(self, v, gone):
        """CPD of v with the parents in `gone` summed out and columns renormalised"""
        c = self.cpds[v]
        keep = [p for p in c["parents"] if p not in gone]
        acc = {}
        for (i, key), p in self.named(v).items():
            k2 = (i, frozenset(x for x in key if x[0] not in gone))
            acc[k2] = acc.get(k2, 0.0) + p
        cfgs = list(itertools.product(*[range(self.card[p]) for p in keep]))
        table = [[0.0] * len(cfgs) for _ in range(self.card[v])]
        for j, cfg in enumerate(cfgs):
            key = frozenset(zip(keep, cfg))
            tot = sum(acc[(i, key)] for i in range(self.card[v]))
            for i in range(self.card[v]):
                table[i][j] = acc[(i, key)] / tot
        self.cpds[v] = {"parents": keep, "table": table}

    def spec(self):
        return {"nodes": list(self.nodes), "edges": [list(e) for e in self.edges], "card": [self.card[v] for v in self.nodes],
                "states": [list(range(self.card[v])) for v in self.nodes], "cpds": [{"var": v, "parents": c["parents"], "table": c["table"]} for v, c in self.cpds.items()]}


def _table(seed, k, ncol):
    cols = []
    for j in range(ncol):
        w = [1 + ((seed * 7919 + i * 104729 + j * 1299709) % 97) for i in range(k)]
        s = float(sum(w))
        cols.append([x / s for x in w])
    return [[cols[j][i] for j in range(ncol)] for i in range(k)]


def _real_named(cpd):
    import numpy as np

    vals = np.asarray(cpd.values, dtype=float)
    vs = list(cpd.variables)
    out = {}
    for idxs in itertools.product(*[range(int(c)) for c in cpd.cardinality]):
        out[(idxs[0], frozenset(zip(vs[1:], idxs[1:])))] = float(vals[idxs])
    return out


def compare(out, tag, real, m, who):
    if set(real.nodes()) != set(m.nodes):
        out.fail(f"{tag}:nodes_differ[{who}]", f"real {sorted(map(repr, real.nodes()))} model {sorted(map(repr, m.nodes))}")
        return False
    if {tuple(e) for e in real.edges()} != m.edges:
        out.fail(f"{tag}:edges_differ[{who}]", f"real {sorted(map(repr, real.edges()))} model {sorted(map(repr, m.edges))}")
        return False
    if not is_acyclic(list(real.nodes()), [tuple(e) for e in real.edges()]):
        out.fail(f"{tag}:directed_cycle[{who}]", f"{list(real.edges())}")
        return False
    if set(real.latents) != m.latents:
        out.fail(f"{tag}:latents_differ[{who}]", f"real {real.latents} model {m.latents}")
        return False
    rc = {c.variable: c for c in real.get_cpds()}
    if len(rc) != len(real.get_cpds()) or set(rc) != set(m.cpds):
        out.fail(f"{tag}:cpd_set_differs[{who}]", f"real {sorted(map(repr, rc))} model {sorted(map(repr, m.cpds))}")
        return False
    for v, c in rc.items():
        if set(c.variables[1:]) != set(m.cpds[v]["parents"]):
            out.fail(f"{tag}:cpd_scope_differs[{who}]", f"{v!r}: real {c.variables} model {m.cpds[v]['parents']}")
            return False
        g, w = _real_named(c), m.named(v)
        if set(g) != set(w) or any(abs(g[k] - w[k]) > 1e-9 for k in w):
            out.fail(f"{tag}:cpd_values_differ[{who}]", f"{v!r}")
            return False
    return True


def run_bn(case, out):
    from pgmpy.factors.discrete import TabularCPD
    from pgmpy.models import BayesianNetwork

    pool = POOLS[case["kind"]]
    P = len(pool)
    sibs = [(BayesianNetwork(), M())]
    out.cls(f"names_{case['kind']}")
    out.evals = 0
    copied = False
    for n_step, s in enumerate(case["steps"]):
        op = s["op"]
        si = s["c"] % len(sibs)
        real, m = sibs[si]
        tag = op
        expect_raise = False
        pre = m.copy()
        call = None
        after = None  # function updating the model on success
        if op == "add_node":
            v = pool[s["a"] % P]
            lat = s["flag"] and s["b"] % 3 == 0
            call = lambda: real.add_node(v, latent=True) if lat else real.add_node(v)  # noqa: E731

            def after():
                m.add_node(v)
                m.card.setdefault(v, 1 + s["seed"] % 3)
                if lat:
                    m.latents.add(v)
        elif op == "add_nodes_from":
            vs = [pool[i] for i in range(P) if (s["a"] >> i) & 1] or [pool[0]]
            call = lambda: real.add_nodes_from(vs)  # noqa: E731

            def after():
                for v in vs:
                    m.add_node(v)
                    m.card.setdefault(v, 1 + (s["seed"] + len(repr(v))) % 3)
        elif op == "add_edge":
            u, v = pool[s["a"] % P], pool[s["b"] % P]
            expect_raise = u == v or (u in m.nodes and v in m.nodes and m.has_path(v, u))
            tag = "add_edge[self_loop]" if u == v else ("add_edge[cycle]" if expect_raise else "add_edge")
            call = lambda: real.add_edge(u, v)  # noqa: E731

            def after():
                for x in (u, v):
                    m.add_node(x)
                    m.card.setdefault(x, 1 + (s["seed"] + len(repr(x))) % 3)
                m.edges.add((u, v))
        elif op == "add_edges_from":
            es = [(pool[(s["a"] + i) % P], pool[(s["b"] + 2 * i) % P]) for i in range(3)]
            # sequential semantics: apply a prefix until the first rejected edge
            bad = False
            for (u, v) in es:
                if u == v or (u in m.nodes and v in m.nodes and m.has_path(v, u)):
                    bad = True
                    break
                for x in (u, v):
                    m.add_node(x)
                    m.card.setdefault(x, 1 + (s["seed"] + len(repr(x))) % 3)
                m.edges.add((u, v))
            expect_raise = bad
            call = lambda: real.add_edges_from(es)  # noqa: E731
            pre = m.copy()  # the applied prefix is the expected state either way
            after = lambda: None  # noqa: E731
        elif op in ("remove_node", "remove_nodes_from"):
            vs = [pool[s["a"] % P]] if op == "remove_node" else [pool[s["a"] % P], pool[s["b"] % P]]
            if op == "remove_nodes_from" and vs[0] == vs[1]:
                vs = vs[:1]
            missing = [v for v in vs if v not in m.nodes]
            stale = any(c in m.cpds and v not in m.cpds[c]["parents"] for v in vs if v in m.nodes for c in m.children(v))
            expect_raise = bool(missing)
            if stale and not missing:
                tag = f"{op}[child_cpd_without_the_node]"  # nothing to marginalise in that child: the removal goes through
            elif missing:
                tag = f"{op}[unknown_node]"
            if op == "remove_nodes_from" and expect_raise:
                # prefix semantics are not modelled for the failing multi-element call: skip it
                continue
            call = (lambda: real.remove_node(vs[0])) if op == "remove_node" else (lambda: real.remove_nodes_from(vs))
            had = any(m.parents(v) and any(c in m.cpds for c in m.children(v)) for v in vs if v in m.nodes)

            def after():
                for v in vs:
                    for c in m.children(v):
                        if c in m.cpds and v in m.cpds[c]["parents"]:
                            m.marginalize(c, [v])
                    m.cpds.pop(v, None)
                    m.latents.discard(v)
                    m.nodes.remove(v)
                    m.edges = {e for e in m.edges if v not in e}
                if had:
                    out.nontrivial = True
                    out.cls("remove_node_with_parents_and_children_cpds")
        elif op == "add_cpd":
            if not m.nodes:
                continue
            v = m.nodes[s["a"] % len(m.nodes)]
            mode = ["consistent", "consistent", "consistent", "foreign_scope", "stale"][s["b"] % 5]
            ps = m.parents(v)
            if mode == "stale" and ps:
                ps = ps[1:]
            if s["flag"]:
                ps = list(reversed(ps))
            if mode == "foreign_scope":
                ghost = next((x for x in pool if x not in m.nodes), None)
                if ghost is None:
                    continue
                ps = ps + [ghost]
                m.card.setdefault(ghost, 2)
                expect_raise = True
            tag = f"add_cpds[{mode}]"
            ncol = 1
            for p in ps:
                ncol *= m.card[p]
            table = _table(s["seed"], m.card[v], ncol)
            kw = dict(evidence=list(ps), evidence_card=[m.card[p] for p in ps]) if ps else {}
            cpd = TabularCPD(v, m.card[v], table, **kw)
            call = lambda: real.add_cpds(cpd)  # noqa: E731

            def after():
                m.cpds[v] = {"parents": list(ps), "table": table}
        elif op == "remove_cpd":
            if not m.nodes:
                continue
            v = m.nodes[s["a"] % len(m.nodes)]
            by_name = s["flag"]
            if v not in m.cpds:
                if not by_name:
                    continue
                expect_raise = True
                tag = "remove_cpds[by_name,no_cpd]"
                call = lambda: real.remove_cpds(v)  # noqa: E731
            else:
                tag = "remove_cpds[by_name]" if by_name else "remove_cpds[by_object]"
                call = (lambda: real.remove_cpds(v)) if by_name else (lambda: real.remove_cpds(real.get_cpds(v)))

            def after():
                m.cpds.pop(v, None)
        elif op == "do":
            vs = [pool[s["a"] % P]] + ([pool[s["b"] % P]] if s["seed"] % 3 == 0 and s["a"] % P != s["b"] % P else [])
            inplace = s["flag"]
            expect_raise = any(v not in m.nodes for v in vs)
            partial = bool(m.cpds) and any(v in m.nodes and v not in m.cpds for v in vs)
            tag = f"do[inplace={inplace}]" + ("[unknown_node]" if expect_raise else "") + ("[node_without_cpd]" if partial and not expect_raise else "")
            had = any(v in m.nodes and m.parents(v) and v in m.cpds and any(c in m.cpds for c in m.children(v)) for v in vs)
            box = {}

            def call():
                box["res"] = real.do(list(vs), inplace=inplace)

            def after():
                tgt = m if inplace else m.copy()
                for v in vs:
                    if v in tgt.cpds:
                        tgt.marginalize(v, list(tgt.cpds[v]["parents"]))
                    tgt.edges = {e for e in tgt.edges if e[1] != v}
                if inplace:
                    if box["res"] is not real:
                        out.fail("do[inplace=True]:returned_other_object", "")
                else:
                    if box["res"] is real:
                        out.fail("do[inplace=False]:returned_self", "")
                    sibs.append((box["res"], tgt))
                if had:
                    out.nontrivial = True
                    out.cls("do_on_node_with_parents_and_children_cpds")
        elif op == "copy":
            box = {}

            def call():
                box["res"] = real.copy()

            def after():
                sibs.append((box["res"], m.copy()))
        elif op == "random_cpds":
            if not m.nodes:
                continue
            inplace = s["flag"]
            tag = f"get_random_cpds[inplace={inplace}]"
            box = {}
            ns = {v: m.card[v] for v in m.nodes}

            def call():
                box["res"] = real.get_random_cpds(n_states=dict(ns), inplace=inplace)

            def after():
                tgt_real = real if inplace else box["res"]
                tgt = m if inplace else m.copy()
                if tgt_real is None or (not inplace and tgt_real is real):
                    out.fail(f"{tag}:bad_return", repr(type(tgt_real)))
                    return
                for c in tgt_real.get_cpds():
                    vals = c.get_values()
                    if set(c.variables[1:]) != set(tgt.parents(c.variable)) or int(c.variable_card) != tgt.card[c.variable] or abs(float(vals.sum(axis=0).max()) - 1) > 1e-9 or abs(float(vals.sum(axis=0).min()) - 1) > 1e-9:
                        out.fail(f"{tag}:invalid_cpd", f"{c.variable!r} {c.variables}")
                        return
                    ps = list(c.variables[1:])
                    tgt.cpds[c.variable] = {"parents": ps, "table": [[float(x) for x in row] for row in vals.tolist()]}
                if not inplace:
                    sibs.append((tgt_real, tgt))
        elif op == "check_model":
            want = m.valid() and bool(m.nodes)
            box = {}

            def call():
                try:
                    box["ok"] = real.check_model()
                except ValueError:
                    box["ok"] = False

            def after():
                if m.nodes and bool(box["ok"]) != want:
                    out.fail("check_model:verdict", f"real {box['ok']} model {want}; cpds {sorted(map(repr, m.cpds))} nodes {m.nodes}")
        elif op == "query":
            if not (m.valid() and m.nodes and len(m.nodes) <= 5):
                continue
            from pgmpy.inference import VariableElimination

            v = m.nodes[s["a"] % len(m.nodes)]
            box = {}

            def call():
                box["res"] = VariableElimination(real).query([v], show_progress=False)

            def after():
                want = Joint.from_bn(m.spec()).marginal([v])
                got = [float(x) for x in box["res"].values]
                if any(abs(got[i] - want[frozenset([(v, i)])]) > 1e-9 for i in range(len(got))):
                    out.fail("query:value", f"{v!r}: {got}")
        else:
            continue
        # ---------------- run the step
        out.evals += 1
        try:
            call()
            raised = None
        except Exception as e:  # noqa: BLE001
            raised = e
        if raised is not None and not expect_raise:
            out.fail(f"{tag}:raised {type(raised).__name__}", f"step {n_step}: {raised}")
            # was the object at least left unchanged?
            if not _same(real, pre):
                out.fail(f"{tag}:not_atomic", f"step {n_step}: raised {type(raised).__name__} after modifying the model")
            return
        if raised is None and expect_raise:
            out.fail(f"{tag}:accepted", f"step {n_step}: invalid operation was accepted")
            return
        if raised is not None:
            sibs[si] = (real, pre)
            m = pre
            who = f"after rejected {tag}"
            if not compare(out, "rejected_operation_changed_the_model", real, pre, tag):
                return
        else:
            after()
            if out.failures:
                return
        if op == "copy" or (op in ("do", "random_cpds") and not s["flag"]):
            copied = True
        elif copied and op not in ("check_model", "query"):
            out.nontrivial = True
            out.cls("edit_after_copy")
        # ---------------- invariants over every live sibling
        for k, (r, mm) in enumerate(sibs):
            if not compare(out, "state", r, mm, f"sibling{'_edited' if k == si else '_other'} after {tag}"):
                return
    out.sample = {"kind": case["kind"], "n_steps": len(case["steps"]), "ops": [s["op"] for s in case["steps"]][:12], "siblings": len(sibs)}


def _same(real, m):
    try:
        if set(real.nodes()) != set(m.nodes) or {tuple(e) for e in real.edges()} != m.edges or set(real.latents) != m.latents:
            return False
        rc = {c.variable: c for c in real.get_cpds()}
        if set(rc) != set(m.cpds):
            return False
        for v, c in rc.items():
            g, w = _real_named(c), m.named(v)
            if set(g) != set(w) or any(abs(g[k] - w[k]) > 1e-9 for k in w):
                return False
        return True
    except Exception:  # noqa: BLE001
        return False


# ---------------------------------------------------------------------------------------------- construction
@st.composite
def ctor_case(draw):
    n = draw(st.integers(2, 5))
    names = POOLS["str"][:n]
    m = draw(st.integers(1, 7))
    edges = [[names[draw(st.integers(0, n - 1))], names[draw(st.integers(0, n - 1))]] for _ in range(m)]
    return {"edges": edges, "cls": draw(st.sampled_from(["DAG", "BayesianNetwork"]))}


def check_ctor(case, out):
    from pgmpy.base import DAG
    from pgmpy.models import BayesianNetwork

    edges = [tuple(e) for e in case["edges"]]
    nodes = sorted({x for e in edges for x in e})
    cyc = not is_acyclic(nodes, list(set(edges)))
    out.cls(case["cls"], "cyclic" if cyc else "acyclic")
    out.nontrivial = cyc and len(edges) >= 3
    cls = DAG if case["cls"] == "DAG" else BayesianNetwork
    import networkx as nx

    try:
        g = cls(edges)
    except (ValueError, nx.NetworkXError):  # networkx wraps the rejection of a self loop in NetworkXError
        if not cyc:
            out.fail(f"{case['cls']}(ebunch):rejects_acyclic", f"{edges}")
        return
    except Exception as e:  # noqa: BLE001
        out.fail(f"{case['cls']}(ebunch):raised {type(e).__name__}", f"{edges}: {e}")
        return
    if cyc:
        out.fail(f"{case['cls']}(ebunch):accepts_cycle", f"{edges}")
    elif {tuple(e) for e in g.edges()} != set(edges) or set(g.nodes()) != set(nodes):
        out.fail(f"{case['cls']}(ebunch):graph_differs", f"{edges}")


# ---------------------------------------------------------------------------------------------- snapshot machines
DOPS = ["add_node", "edge_same", "edge_same_late", "edge_next", "edge_next", "edge_same", "edge_next_late", "edge_back", "edge_far", "edge_bad", "copy", "copy_edit", "add_cpd", "remove_cpd", "get_cpds_slice"]


@st.composite
def dbn_history(draw):
    return {"steps": draw(st.lists(st.fixed_dictionaries({"op": st.sampled_from(DOPS), "a": st.integers(0, 4), "b": st.integers(0, 4), "t": st.integers(0, 2)}), min_size=3, max_size=25))}


def _snap(g):
    if not g.is_directed():  # an undirected edge has no orientation: (u, v) and (v, u) are the same edge
        return (frozenset(map(str, g.nodes())), frozenset(frozenset((str(u), str(v))) for u, v in g.edges()),
                len(getattr(g, "cpds", []) or getattr(g, "factors", [])))
    return (frozenset(map(str, g.nodes())), frozenset((str(u), str(v)) for u, v in g.edges()), len(getattr(g, "cpds", []) or getattr(g, "factors", [])))


def run_dbn(case, out):
    from pgmpy.factors.discrete import TabularCPD
    from pgmpy.models import DynamicBayesianNetwork as DBN

    pool = ["A", "B", "C", "D", "E"]
    sibs = [DBN()]
    out.evals = 0
    for s in case["steps"]:
        g = sibs[s["t"] % len(sibs)]
        op = s["op"]
        u, v = pool[s["a"]], pool[s["b"]]
        before = [_snap(x) for x in sibs]
        expect = None
        if op == "add_node":
            call = lambda: g.add_node(u)  # noqa: E731
        elif op == "edge_same":
            t = s["t"] % 2
            call = lambda: g.add_edge((u, t), (v, t))  # noqa: E731
        elif op == "edge_next":
            call = lambda: g.add_edge((u, 0), (v, 1))  # noqa: E731
        elif op == "edge_same_late":
            # an intra-slice edge written at a later slice is legal and is folded onto slices 0/1
            t = 2 + s["t"]
            call = lambda: g.add_edge((u, t), (v, t))  # noqa: E731
        elif op == "edge_next_late":
            t = 1 + s["t"]
            call = lambda: g.add_edge((u, t), (v, t + 1))  # noqa: E731
        elif op == "edge_back":
            call = lambda: g.add_edge((u, 1), (v, 0))  # noqa: E731
            expect = "raise"
        elif op == "edge_far":
            call = lambda: g.add_edge((u, 0), (v, 2))  # noqa: E731
            expect = "raise"
        elif op == "edge_bad":
            call = lambda: g.add_edge(u, (v, 0))  # noqa: E731
            expect = "raise"
        elif op in ("copy", "copy_edit"):
            def call():
                c = g.copy()
                if _snap(c)[:2] != _snap(g)[:2]:
                    out.fail("dbn.copy:differs_from_original", "")
                sibs.append(c)
                if op == "copy_edit":
                    out.nontrivial = True
                    try:
                        c.add_edge((u, 0), (v, 0))
                    except Exception:  # noqa: BLE001
                        pass
                    before.append(_snap(c))
                else:
                    before.append(_snap(c))
        elif op == "add_cpd":
            def call():
                node = (u, 0)
                if node in g.nodes():
                    ps = list(g.get_parents(node))
                    g.add_cpds(TabularCPD(node, 2, [[0.5] * (2 ** len(ps)), [0.5] * (2 ** len(ps))], evidence=ps or None, evidence_card=[2] * len(ps) or None))
        elif op == "remove_cpd":
            def call():
                node = (u, 0)
                if node in g.nodes() and g.get_cpds(node) is not None:
                    n0 = len(g.cpds)
                    g.remove_cpds(g.get_cpds(node))
                    if len(g.cpds) != n0 - 1:  # (add_cpds keeps earlier CPDs of the same variable: another one may remain)
                        out.fail("dbn.remove_cpd:not_removed", f"{node}")
        elif op == "get_cpds_slice":
            def call():
                # the CPDs reported for slice t are exactly those of variables (x, t)
                for t in (0, 1):
                    got = g.get_cpds(time_slice=t)
                    if any(c.variable[1] != t for c in got):
                        out.fail("dbn.get_cpds:wrong_slice", f"slice {t}: {[str(c.variable) for c in got]}")
        out.evals += 1
        idx = sibs.index(g)
        try:
            call()
            raised = None
        except (ValueError, NotImplementedError) as e:
            raised = e
        except Exception as e:  # noqa: BLE001
            out.fail(f"dbn.{op}:raised {type(e).__name__}", str(e))
            return
        if expect == "raise" and raised is None:
            out.fail(f"dbn.{op}:accepted", f"{u},{v}")
            return
        for k, x in enumerate(sibs):
            if not is_acyclic(list(x.nodes()), list(x.edges())):
                out.fail(f"dbn.{op}:directed_cycle", f"{sorted(map(str, x.edges()))}")
                return
            if k < len(before) and (k != idx or raised is not None) and _snap(x) != before[k]:
                lab = f"dbn.{op}:rejected_operation_changed_the_model" if k == idx else f"dbn.{op}:changed_another_object"
                out.fail(lab, f"{u},{v} raised={raised}")
                return
    out.sample = {"ops": [s["op"] for s in case["steps"]][:12]}


UOPS = ["add_node", "add_edge", "add_edge", "add_factor", "copy", "copy_edit", "self_loop"]


@st.composite
def und_history(draw):
    return {"cls": draw(st.sampled_from(["MarkovNetwork", "JunctionTree", "JunctionTree"])),
            "steps": draw(st.lists(st.fixed_dictionaries({"op": st.sampled_from(UOPS), "a": st.integers(0, 5), "b": st.integers(0, 5), "t": st.integers(0, 2)}), min_size=3, max_size=25))}


def run_und(case, out):
    from pgmpy.factors.discrete import DiscreteFactor
    from pgmpy.models import JunctionTree, MarkovNetwork

    jt = case["cls"] == "JunctionTree"
    pool = [("a", "b"), ("b", "c"), ("c", "d"), ("a", "d"), ("x", "y"), ("b", "c", "d")] if jt else ["a", "b", "c", "d", "e", "f"]
    sibs = [JunctionTree() if jt else MarkovNetwork()]
    out.cls(case["cls"])
    out.evals = 0
    for s in case["steps"]:
        g = sibs[s["t"] % len(sibs)]
        idx = sibs.index(g)
        op = s["op"]
        u, v = pool[s["a"]], pool[s["b"]]
        before = [_snap(x) for x in sibs]
        expect = None
        if op == "add_node":
            call = lambda: g.add_node(u)  # noqa: E731
        elif op == "add_edge":
            call = lambda: g.add_edge(u, v)  # noqa: E731
            if jt and (u == v or not set(u) & set(v)):
                expect = "raise"
            if not jt and u == v:
                expect = "raise"
        elif op == "self_loop":
            call = lambda: g.add_edge(u, u)  # noqa: E731
            expect = "raise"
        elif op == "add_factor":
            def call():
                if jt:
                    if u in g.nodes():
                        g.add_factors(DiscreteFactor(list(u), [2] * len(u), [1.0] * (2 ** len(u))))
                elif g.has_edge(u, v):
                    g.add_factors(DiscreteFactor([u, v], [2, 2], [1.0, 2.0, 3.0, 4.0]))
        else:
            def call():
                c = g.copy()
                if _snap(c) != _snap(g):
                    out.fail(f"{case['cls']}.copy:differs_from_original", f"{_snap(c)} vs {_snap(g)}")
                sibs.append(c)
                if op == "copy_edit":
                    out.nontrivial = True
                    try:
                        c.add_edge(u, v)
                    except Exception:  # noqa: BLE001
                        pass
                before.append(_snap(c))
        out.evals += 1
        try:
            call()
            raised = None
        except (ValueError, TypeError) as e:
            raised = e
        except Exception as e:  # noqa: BLE001
            out.fail(f"{case['cls']}.{op}:raised {type(e).__name__}", str(e))
            return
        if expect == "raise" and raised is None:
            out.fail(f"{case['cls']}.{op}:accepted", f"{u},{v}")
            return
        for k, x in enumerate(sibs):
            if jt:
                # a junction tree must stay a forest
                comps = gen._components(list(x.nodes()), [tuple(e) for e in x.edges()])
                if x.number_of_edges() != x.number_of_nodes() - len(comps):
                    out.fail(f"JunctionTree.{op}:cycle", f"{sorted(map(str, x.edges()))}")
                    return
            if k < len(before) and (k != idx or raised is not None) and _snap(x) != before[k]:
                lab = f"{case['cls']}.{op}:rejected_operation_changed_the_model" if k == idx else f"{case['cls']}.{op}:changed_another_object"
                out.fail(lab, f"{u},{v} raised={raised}")
                return
    out.sample = {"cls": case["cls"], "ops": [s["op"] for s in case["steps"]][:12]}


THOROUGH_SCALE = 7  # thorough-tier example counts are n["thorough"] x this (one thorough run then takes roughly 5-10 minutes on 16 cores)
SUBCHECKS = [
    Sub("bn_history", run_bn, strategy=lambda tier: bn_history(30 if tier == "quick" else 80), n={"quick": 400, "thorough": 4000},
        shards={"quick": 12, "thorough": 16}, fuzz={"thorough": (2, 300)}, doc="BayesianNetwork edit histories against a plain-Python model with a pool of live copies"),
    Sub("construction", check_ctor, strategy=lambda tier: ctor_case(), n={"quick": 200, "thorough": 2000},
        shards={"quick": 1, "thorough": 2}, doc="DAG(ebunch) / BayesianNetwork(ebunch): cyclic edge lists rejected, acyclic ones reproduced"),
    Sub("dbn_history", run_dbn, strategy=lambda tier: dbn_history(), n={"quick": 150, "thorough": 2000},
        shards={"quick": 2, "thorough": 8}, doc="DynamicBayesianNetwork edge/copy histories: acyclic, rejected edits atomic, copies independent"),
    Sub("undirected_history", run_und, strategy=lambda tier: und_history(), n={"quick": 200, "thorough": 2500},
        shards={"quick": 2, "thorough": 8}, doc="MarkovNetwork / JunctionTree histories: junction tree stays a forest, rejected edits atomic, copies independent"),
]
PREDICATES = {}
