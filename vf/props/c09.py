"""C09 — writing a model to a file and reading it back returns the same model."""
import itertools
import os

from hypothesis import strategies as st

from .. import gen
from ..core import RAISED, Sub
from ..oracle.joint import Joint
from ..spec import build_bn, build_mn

RULE = (
    "cases = valid Bayesian-network specs with identifier names (plain letters, words, and names containing a "
    "format keyword such as 'variable', 'probability', 'network', 'table', 'default', 'property', 'type', 'node', "
    "'potential', 'data', 'states', 'net' as a substring), identifier or digit-like state names, cards 1-4, 0-4 "
    "parents declared in any order, tables mixing magnitudes 1e-12..1 and exact 0/1, occasionally > 1000 entries; "
    "Markov-network specs for UAI MARKOV. Each is written and read back through BIF / XMLBIF / UAI / NET via "
    "strings, files and BayesianNetwork.save/load. Oracle = equality of the *specs*: variable set, edge set, state "
    "lists as strings and every named conditional (exact for BIF/XMLBIF/UAI, 5.1e-5 for NET); UAI names are "
    "positional, so any cardinality/edge/conditional-preserving bijection is accepted. non-trivial = a node with "
    ">= 2 parents of different cardinalities, or a probability < 1e-4; distinct = sha1 of the case."
)
ASSUMPTIONS = [
    "variable and state names are plain identifiers ([A-Za-z][A-Za-z0-9_]*, states may also be digit strings)",
    "readers are run with n_jobs=1 (n_jobs=2 in a tiny thorough sample: joblib start-up costs ~10 s)",
    "exactness means float equality after str()/float() round trip, which is lossless for float64",
    "NET is documented to keep four decimals: |dp| <= 5.1e-5",
]

FORMATS = ["bif", "xmlbif", "uai", "net"]
WORDS = ["rain", "x1", "Node_2", "grade", "zeta", "b", "Alpha", "q9", "vv", "w3"]
KW = ["variable_a", "myprobability", "network1", "tableX", "default_", "property2", "type", "node", "potentials", "data", "states", "net", "probability_of", "avariable",
      "timetable", "use_default", "subtype", "anode", "mydata", "botnet", "is_table", "x_default"]
KW_STATES = ["stable", "unstable", "adefault", "xtable", "default1", "table2", "mytype", "nodes"]


@st.composite
def rw_case(draw, big=False):
    kind = draw(st.sampled_from(["str", "word", "kw", "kw"]))
    gen.NAME_POOLS["rw_word"] = WORDS
    gen.NAME_POOLS["rw_kw"] = KW
    nk = {"str": "str", "word": "rw_word", "kw": "rw_kw"}[kind]
    if big:
        spec = draw(gen.bn_spec(min_nodes=6, max_nodes=6, name_kinds=(nk,), state_kinds=("str", "range", "offset"), min_card=4, max_card=4, max_parents=5, max_cells=10**7, cap_cards=False, col_kinds=("dense", "tiny", "zeros")))
    elif draw(st.integers(0, 5)) == 0:
        # cardinalities on both sides of 10 (formats that order or index variables by a textual cardinality)
        spec = draw(gen.bn_spec(min_nodes=2, max_nodes=3, name_kinds=(nk,), state_kinds=("str", "range", "offset"), max_parents=1, card_pool=[2, 3, 10, 11, 12, 9],
                                col_kinds=("dense", "dense", "zeros", "tiny")))
        spec["wide_cards"] = True
    else:
        spec = draw(gen.bn_spec(min_nodes=1, max_nodes=6, name_kinds=(nk,), state_kinds=("str", "str", "range", "offset", "perm"), max_parents=4, col_kinds=("dense", "dense", "zeros", "onehot", "uniform", "tiny", "tiny")))
    spec["name_kind"] = kind
    if kind == "kw" and draw(st.booleans()) and max(spec["card"]) <= len(KW_STATES):
        # state names that contain / end with format keywords as well
        spec["states"] = [[KW_STATES[(i + j) % len(KW_STATES)] for j in range(k)] for i, k in enumerate(spec["card"])]
        spec["explicit_states"] = True
        spec["kw_states"] = True
    # state names become identifier-like strings: 's0'.. or digit strings
    fmt = draw(st.sampled_from(["bif", "bif", "xmlbif", "xmlbif", "uai", "uai", "net", "net"]))  # BIFReader builds its grammar in ~1.5 s
    via = draw(st.sampled_from(["string", "string", "file", "save_load"]))
    return {"spec": spec, "format": fmt, "via": via}


def named_cpds_of_spec(spec):
    idx = {v: i for i, v in enumerate(spec["nodes"])}
    out = {}
    for c in spec["cpds"]:
        v = c["var"]
        st_ = lambda x: [str(s) for s in spec["states"][idx[x]]]  # noqa: E731
        tab = {}
        cfgs = list(itertools.product(*[range(spec["card"][idx[p]]) for p in c["parents"]]))
        for j, cfg in enumerate(cfgs):
            key = frozenset((str(p), st_(p)[s]) for p, s in zip(c["parents"], cfg))
            for i, cs in enumerate(st_(v)):
                tab[(cs, key)] = c["table"][i][j]
        out[str(v)] = tab
    return out


def named_cpds_of_model(model):
    import numpy as np

    out = {}
    for cpd in model.get_cpds():
        vars_ = list(cpd.variables)
        vals = np.asarray(cpd.values, dtype=float)
        names = [[str(s) for s in cpd.state_names[v]] for v in vars_]
        tab = {}
        for idxs in itertools.product(*[range(len(s)) for s in names]):
            tab[(names[0][idxs[0]], frozenset((str(v), names[i][j]) for i, (v, j) in enumerate(zip(vars_, idxs)) if i > 0))] = float(vals[idxs])
        out[str(cpd.variable)] = tab
    return out


def roundtrip(model, fmt, via, tmpdir, n_jobs=1):
    from pgmpy.models import BayesianNetwork
    from pgmpy.readwrite import BIFReader, BIFWriter, NETReader, NETWriter, UAIReader, UAIWriter, XMLBIFReader, XMLBIFWriter

    W = {"bif": BIFWriter, "xmlbif": XMLBIFWriter, "uai": UAIWriter, "net": NETWriter}[fmt]
    path = os.path.join(tmpdir, f"m.{fmt}")
    if via == "save_load" and fmt != "net":
        model.save(path, filetype=fmt)
        kw = {"n_jobs": n_jobs} if fmt == "bif" else {}
        return BayesianNetwork.load(path, filetype=fmt, **kw), open(path).read()
    w = W(model)
    if via == "string" or (via == "save_load" and fmt == "net"):
        text = w.__str__()
        if isinstance(text, bytes):
            text = text.decode()
        text2 = W(model).__str__()
        if isinstance(text2, bytes):
            text2 = text2.decode()
        if text2 != text:
            raise AssertionError("writer is not deterministic")
        src = {"string": text}
    else:
        getattr(w, {"bif": "write_bif", "xmlbif": "write_xmlbif", "uai": "write_uai", "net": "write_net"}[fmt])(path)
        text = open(path).read()
        src = {"path": path}
    if fmt == "bif":
        r = BIFReader(n_jobs=n_jobs, **src)
    elif fmt == "xmlbif":
        r = XMLBIFReader(**src)
    elif fmt == "uai":
        r = UAIReader(**src)
    else:
        r = NETReader(**src)
    return r.get_model(), text


def _tmp():
    d = os.environ.get("VF_TMP") or "/tmp"
    os.makedirs(d, exist_ok=True)
    return d


def check_rw(case, out, n_jobs=1):
    spec, fmt, via = case["spec"], case["format"], case["via"]
    nodes = [str(v) for v in spec["nodes"]]
    idx = {v: i for i, v in enumerate(spec["nodes"])}
    out.cls(f"fmt_{fmt}", f"via_{via}", f"names_{spec['name_kind']}")
    if max(spec["card"]) >= 10 and min(spec["card"]) < 10:
        out.cls("cardinalities_on_both_sides_of_10")
    if spec.get("kw_states"):
        out.cls("keyword_state_names")
    par = {c["var"]: c["parents"] for c in spec["cpds"]}
    tiny = any(0 < x < 1e-4 for c in spec["cpds"] for row in c["table"] for x in row)
    multi = any(len(p) >= 2 and len({spec["card"][idx[q]] for q in p}) > 1 for p in par.values())
    out.nontrivial = tiny or multi
    if tiny:
        out.cls("tiny_probability")
    if multi:
        out.cls("multi_parent_different_cards")
    if any(len(c["table"]) * len(c["table"][0]) > 1000 for c in spec["cpds"]):
        out.cls("table_over_1000_entries")
    model = out.call("build", build_bn, spec)
    if model is RAISED:
        return
    if out.call("check_model", model.check_model) is RAISED:
        return
    before = named_cpds_of_model(model)
    tag = f"{fmt}[{via}]"
    r = out.call(tag, roundtrip, model, fmt, via, _tmp(), n_jobs)
    if r is RAISED:
        return
    back, text = r
    if named_cpds_of_model(model) != before or set(model.edges()) != {tuple(e) for e in spec["edges"]}:
        out.fail(f"{tag}:writing_changed_the_model", "")
    want = named_cpds_of_spec(spec)
    want_edges = {(str(u), str(v)) for u, v in spec["edges"]}
    tol = 5.1e-5 if fmt == "net" else 0.0
    if fmt == "uai":
        _cmp_uai(out, tag, back, spec, want, want_edges)
        return
    if {str(v) for v in back.nodes()} != set(nodes):
        out.fail(f"{tag}:variables", f"{sorted(map(str, back.nodes()))} vs {sorted(nodes)}")
        return
    if {(str(u), str(v)) for u, v in back.edges()} != want_edges:
        out.fail(f"{tag}:edges", f"{sorted(back.edges())} vs {sorted(want_edges)}")
        return
    for v in spec["nodes"]:
        cpd = back.get_cpds(str(v))
        if cpd is None:
            out.fail(f"{tag}:cpd_missing", str(v))
            return
        if [str(s) for s in cpd.state_names[str(v)]] != [str(s) for s in spec["states"][idx[v]]]:
            out.fail(f"{tag}:state_names", f"{v}: {cpd.state_names[str(v)]} vs {spec['states'][idx[v]]}")
            return
    got = named_cpds_of_model(back)
    for v, tab in want.items():
        g = got.get(v)
        if g is None or set(g) != set(tab):
            out.fail(f"{tag}:assignments", f"{v}")
            return
        for k, w in tab.items():
            if abs(g[k] - w) > tol:
                out.fail(f"{tag}:probability", f"P({v}={k[0]} | {sorted(k[1])}) read back {g[k]!r}, written {w!r}")
                return
    out.sample = {"nodes": nodes, "edges": spec["edges"], "format": fmt, "via": via}


def _cmp_uai(out, tag, back, spec, want, want_edges):
    nodes = [str(v) for v in spec["nodes"]]
    idx = {str(v): i for i, v in enumerate(spec["nodes"])}
    bnodes = [str(v) for v in back.nodes()]
    if len(bnodes) != len(nodes):
        out.fail(f"{tag}:variable_count", f"{bnodes}")
        return
    got = named_cpds_of_model(back)  # states are '0','1',.. positional
    bcard = {str(c.variable): int(c.variable_card) for c in back.get_cpds()}
    bedges = {(str(u), str(v)) for u, v in back.edges()}
    if len(bedges) != len(want_edges):
        out.fail(f"{tag}:edge_count", f"{sorted(bedges)} vs {sorted(want_edges)}")
        return
    # search a bijection original -> var_i preserving cardinalities, edges and all conditionals
    wpos = {}
    for v, tab in want.items():
        sts = [str(s) for s in spec["states"][idx[v]]]
        t2 = {}
        for (cs, key), p in tab.items():
            t2[(sts.index(cs), frozenset((q, [str(s) for s in spec["states"][idx[q]]].index(s)) for q, s in key))] = p
        wpos[v] = t2
    cands = {v: [b for b in bnodes if bcard.get(b) == spec["card"][idx[v]]] for v in nodes}
    order = sorted(nodes, key=lambda v: len(cands[v]))

    def ok(mapping):
        if {(mapping[u], mapping[v]) for u, v in want_edges} != bedges:
            return False
        for v in nodes:
            g = got.get(mapping[v])
            if g is None or len(g) != len(wpos[v]):
                return False
            for (ci, key), p in wpos[v].items():
                k2 = (str(ci), frozenset((mapping[q], str(s)) for q, s in key))
                if k2 not in g or g[k2] != p:
                    return False
        return True

    def rec(i, mapping, used):
        if i == len(order):
            return ok(mapping)
        v = order[i]
        for b in cands[v]:
            if b in used:
                continue
            mapping[v] = b
            if rec(i + 1, mapping, used | {b}):
                return True
            del mapping[v]
        return False

    if not rec(0, {}, frozenset()):
        out.fail(f"{tag}:no_relabelling_reproduces_the_model", f"edges read {sorted(bedges)} written {sorted(want_edges)}; cards {bcard}")
    out.sample = {"nodes": nodes, "edges": spec["edges"], "format": "uai"}


@st.composite
def uai_mn_case(draw):
    spec = draw(gen.mn_spec(min_nodes=2, max_nodes=5, connected=draw(st.booleans()), name_kinds=("str", "word"), state_kinds=("range",), duplicates=False, min_card=1))
    return {"spec": spec, "via": draw(st.sampled_from(["string", "file"]))}


def check_uai_mn(case, out):
    from pgmpy.readwrite import UAIReader, UAIWriter

    spec = case["spec"]
    nodes = spec["nodes"]
    J = Joint.from_factors(nodes, spec["states"], spec["factors"])
    out.nontrivial = any(len(f["vars"]) == 1 for f in spec["factors"]) or any(0 < x < 1e-3 for f in spec["factors"] for x in f["values"])
    out.cls(f"via_{case['via']}", f"shape_{spec['shape']}")
    model = out.call("build", build_mn, spec)
    if model is RAISED:
        return
    w = out.call("UAIWriter", UAIWriter, model)
    if w is RAISED:
        return
    if case["via"] == "string":
        text = out.call("uai_mn:write", str, w)
        if text is RAISED:
            return
        r = out.call("uai_mn:read", UAIReader, string=text)
    else:
        path = os.path.join(_tmp(), "mn.uai")
        if out.call("uai_mn:write", w.write_uai, path) is RAISED:
            return
        r = out.call("uai_mn:read", UAIReader, path=path)
    if r is RAISED:
        return
    back = out.call("uai_mn:get_model", r.get_model)
    if back is RAISED:
        return
    fs = back.get_factors()
    bvars = sorted({v for f in fs for v in f.variables} | set(back.nodes()))
    if len(bvars) != len(nodes):
        out.fail("uai_mn:variable_count", f"{bvars} vs {nodes}" + (" [variable with unary factors only]" if any(all(len(f['vars']) == 1 for f in spec['factors'] if v in f['vars']) for v in nodes) else ""))
        return
    # compare the normalised joint under some bijection preserving cardinalities
    card = {v: c for f in fs for v, c in zip(f.variables, f.cardinality)}
    z0 = J.total()
    target = sorted(round(p / z0, 12) for p in J.table.values())
    ok = False
    for perm in itertools.permutations(bvars):
        m = dict(zip(nodes, perm))
        if any(int(card.get(m[v], -1)) != spec["card"][i] for i, v in enumerate(nodes)):
            continue
        tot = {}
        for a in J.table:
            p = 1.0
            for f in fs:
                inv = {m[v]: a[i] for i, v in enumerate(nodes)}
                p *= float(f.values[tuple(inv[x] for x in f.variables)])
            tot[a] = p
        z1 = sum(tot.values())
        if abs(z1 - z0) <= 1e-12 * abs(z0) and all(abs(tot[a] - J.table[a]) <= 1e-12 * max(abs(J.table[a]), 1e-300) + 1e-300 for a in J.table):
            ok = True
            break
    if not ok:
        out.fail("uai_mn:no_relabelling_reproduces_the_distribution", f"factors written {[f['vars'] for f in spec['factors']]}, read {[list(f.variables) for f in fs]}")
    out.sample = {"nodes": nodes, "factors": [f["vars"] for f in spec["factors"]]}


def check_rw_njobs(case, out):
    check_rw(case, out, n_jobs=2)


SUBCHECKS = [
    Sub("roundtrip", check_rw, strategy=lambda tier: rw_case(), n={"quick": 45, "thorough": 1500},
        shards={"quick": 12, "thorough": 16}, fuzz={"thorough": (3, 600)}, doc="BIF / XMLBIF / UAI / NET write -> read (strings, files, save/load) returns the same variables, edges, state names and conditionals"),
    Sub("roundtrip_big_tables", check_rw, strategy=lambda tier: rw_case(big=True), n={"quick": 2, "thorough": 20},
        shards={"quick": 2, "thorough": 4}, doc="same with tables of > 1000 entries (numpy print threshold)"),
    Sub("uai_markov", check_uai_mn, strategy=lambda tier: uai_mn_case(), n={"quick": 60, "thorough": 800},
        shards={"quick": 2, "thorough": 4}, doc="UAI MARKOV round trip preserves the normalised joint and the partition function (unary factors, tiny values)"),
    Sub("roundtrip_njobs2", check_rw_njobs, strategy=lambda tier: rw_case().filter(lambda c: c["format"] == "bif"), n={"quick": 1, "thorough": 4},
        shards={"quick": 1, "thorough": 2}, doc="BIF reader with n_jobs=2 (tiny sample: joblib start-up)"),
]
def _node_named_node(case):
    spec = case["spec"]
    return any(any(str(p).endswith("node") for p in c["parents"]) and len(c["parents"]) >= 2 for c in spec["cpds"])


PREDICATES = {}
