"""C11 — score-based structure search honours its contract."""
import itertools
import math

from hypothesis import strategies as st

from .. import gen
from ..core import RAISED, Sub
from ..oracle import cpdag as OCP
from ..spec import build_frame

RULE = (
    "hill climbing: discrete data (2-4 columns quick / up to 5 thorough, 5-60 rows, dependent columns) x scoring in "
    "{k2,bdeu,bds,bic,aic} x start DAG (none / random) x fixed edges (acyclic with the start) x black list x white "
    "list x max_indegree in {None,1,2} x tabu_length in {0,1,5,100} x epsilon x max_iter; the result is judged by "
    "own acyclicity test and own legal-move enumerator, scores taken from the uncached pgmpy score object. "
    "Exhaustive search on 2-4 columns vs own enumeration of all DAGs. Chow-Liu / TAN on data with strictly "
    "positive pairwise weights vs maximum spanning-tree weight over all labelled trees (Pruefer enumeration) of "
    "an independently computed mutual-information matrix. non-trivial = >= 3 columns, result with >= 2 edges "
    "and an active constraint (hill climbing) / >= 4 columns (trees); distinct = sha1 of the case."
)
ASSUMPTIONS = [
    "the start DAG together with the fixed edges is acyclic and itself satisfies black list and in-degree bound",
    "fixed edges and black list are disjoint",
    "local optimality is asserted only for tabu_length=0 and max_iter=10^6",
    "tree search: all pairwise weights are > 1e-9 (the documented zero-weight caveat); adjusted/normalized MI "
    "weights are taken from sklearn (the documented base), plain MI is recomputed by hand",
    "TAN is run with an explicit root among the feature variables (automatic root selection may pick the class node, "
    "which the library then refuses; the property speaks of the chosen root)",
    "scores themselves are C10's business: C11 compares scores computed by the same uncached score object",
]
SCORINGS = ["k2", "bdeu", "bds", "bic", "aic"]


def _score(name, df):
    from pgmpy.estimators import AICScore, BDeuScore, BDsScore, BicScore, K2Score

    return {"k2": K2Score, "bdeu": BDeuScore, "bds": BDsScore, "bic": BicScore, "aic": AICScore}[name](df)


def _dag(nodes, edges):
    from pgmpy.base import DAG

    g = DAG()
    g.add_nodes_from(nodes)
    g.add_edges_from([tuple(e) for e in edges])
    return g


def has_path(edges, a, b):
    ch = {}
    for u, v in edges:
        ch.setdefault(u, []).append(v)
    seen, stack = set(), [a]
    while stack:
        x = stack.pop()
        if x == b:
            return True
        if x in seen:
            continue
        seen.add(x)
        stack.extend(ch.get(x, []))
    return False


def legal_moves(nodes, edges, fixed, black, white, max_indeg):
    """all single-edge additions / deletions / reversals allowed by the contract, as (kind, edge, new_edge_set)"""
    E = set(edges)
    indeg = {v: sum(1 for (_, b) in E if b == v) for v in nodes}
    out = []
    for x, y in itertools.permutations(nodes, 2):
        if (x, y) in E or (y, x) in E:
            continue
        if has_path(E, y, x) or (x, y) in black or (white is not None and (x, y) not in white):
            continue
        if max_indeg is not None and indeg[y] + 1 > max_indeg:
            continue
        out.append(("+", (x, y), E | {(x, y)}))
    for x, y in E:
        if (x, y) in fixed:
            continue
        out.append(("-", (x, y), E - {(x, y)}))
        E2 = (E - {(x, y)}) | {(y, x)}
        if not OCP.is_acyclic(nodes, E2) or (y, x) in black or (white is not None and (y, x) not in white):
            continue
        if max_indeg is not None and indeg[x] + 1 > max_indeg:
            continue
        out.append(("flip", (x, y), E2))
    return out


@st.composite
def hc_case(draw, max_cols=4, focus=None):
    ds = draw(gen.data_spec(min_cols=2, max_cols=max_cols, min_rows=5, max_rows=60, min_card=2, max_card=3, kinds=("int", "cat"), extra_states=False, dependent=True))
    cols = ds["columns"]
    ds["pass_state_names"] = False
    topo = list(draw(st.permutations(cols)))
    pairs = [(topo[i], topo[j]) for j in range(len(topo)) for i in range(j)]
    trap = len(cols) >= 3 and draw(st.integers(0, 3)) == 0
    if trap:
        # "saturated tail" construction: column c is a function of columns a and b that neither explains alone
        # (parity), the start graph is the chain a -> c -> b and the in-degree bound is 1 (or 2 with one more parent of
        # c): the only big gain is reversing c -> b, which the bound forbids. Rows are replaced by a balanced design.
        a, c, b = topo[0], topo[1], topo[2]
        ia, ic, ib = cols.index(a), cols.index(c), cols.index(b)
        ka, kb, kc = len(ds["states"][ia]), len(ds["states"][ib]), len(ds["states"][ic])
        reps = draw(st.integers(3, 12))
        rows = []
        for r in range(reps):
            for x in range(ka):
                for y in range(kb):
                    row = [draw(st.integers(0, len(sts) - 1)) for sts in ds["states"]]
                    row[ia], row[ib], row[ic] = x, y, (x + y) % kc
                    rows.append(row)
        ds["rows"] = rows
        start_mode = "dag"
        start = [(a, c), (c, b)]
        fixed = []
        max_indeg = 1
        if len(cols) >= 4 and draw(st.booleans()):
            start.append((topo[3], c))
            max_indeg = 2
    else:
        start_mode = draw(st.sampled_from(["none", "none", "dag"]))
        start = [p for p in pairs if draw(st.integers(0, 3)) == 0] if start_mode == "dag" else []
        fixed = [p for p in pairs if draw(st.integers(0, 5)) == 0] if draw(st.booleans()) else []
        max_indeg = draw(st.sampled_from([None, None, 1, 2]))
    if max_indeg is not None:
        # make start u fixed respect the bound
        keep, indeg = [], {}
        for e in fixed + [s for s in start if s not in fixed]:
            if indeg.get(e[1], 0) < max_indeg:
                keep.append(e)
                indeg[e[1]] = indeg.get(e[1], 0) + 1
        fixed = [e for e in fixed if e in keep]
        start = [e for e in start if e in keep]
    used = set(start) | set(fixed)
    allp = list(itertools.permutations(cols, 2))
    black = [p for p in allp if p not in used and draw(st.integers(0, 4)) == 0] if draw(st.booleans()) and not trap else None
    white = [p for p in allp if draw(st.integers(0, 2)) > 0] if draw(st.integers(0, 2)) == 0 and not trap else None
    if focus == "tabu0" and not trap:
        # long trajectories with the tabu list disabled: dense start graph, nothing forbidden, run to convergence
        start_mode = "dag"
        start = [p for p in pairs if draw(st.booleans())]
        fixed, black, white = [], None, None
        max_indeg = draw(st.sampled_from([None, 2, 3]))
        if max_indeg is not None:
            keep, indeg = [], {}
            for e in start:
                if indeg.get(e[1], 0) < max_indeg:
                    keep.append(e)
                    indeg[e[1]] = indeg.get(e[1], 0) + 1
            start = keep
        return {"data": ds, "scoring": draw(st.sampled_from(SCORINGS)), "start_mode": start_mode, "start": [list(e) for e in start], "fixed": [], "black": None,
                "white": None, "max_indegree": max_indeg, "trap": False, "tabu_length": 0, "epsilon": draw(st.sampled_from([1e-8, 1e-4, 0.5])), "max_iter": 10**6}
    return {"data": ds, "scoring": draw(st.sampled_from(SCORINGS)), "start_mode": start_mode, "start": [list(e) for e in start],
            "fixed": [list(e) for e in fixed], "black": None if black is None else [list(e) for e in black],
            "white": None if white is None else [list(e) for e in white], "max_indegree": max_indeg, "trap": bool(trap),
            "tabu_length": draw(st.sampled_from([0, 0, 1, 5, 100])), "epsilon": draw(st.sampled_from([1e-8, 1e-4, 0.5])),
            "max_iter": draw(st.sampled_from([1, 3, 10**6, 10**6]))}


def check_hc(case, out):
    from pgmpy.estimators import HillClimbSearch
    from pgmpy.models import BayesianNetwork

    ds = case["data"]
    cols = ds["columns"]
    df = build_frame(ds)
    start = [tuple(e) for e in case["start"]]
    fixed = {tuple(e) for e in case["fixed"]}
    black = None if case["black"] is None else {tuple(e) for e in case["black"]}
    white = None if case["white"] is None else {tuple(e) for e in case["white"]}
    mi = case["max_indegree"]
    out.cls(f"scoring_{case['scoring']}", f"start_{case['start_mode']}", f"tabu_{case['tabu_length']}")
    for nm, v in (("fixed", fixed), ("black", black), ("white", white), ("max_indegree", mi)):
        if v:
            out.cls(f"with_{nm}")
    if case.get("trap"):
        out.cls("saturated_tail_reversal_trap")
    hc = out.call("HillClimbSearch", HillClimbSearch, df)
    if hc is RAISED:
        return
    start_dag = _dag(cols, start) if case["start_mode"] == "dag" else None
    kw = dict(scoring_method=case["scoring"], start_dag=start_dag, fixed_edges=set(fixed), tabu_length=case["tabu_length"],
              max_indegree=mi, black_list=None if black is None else list(black), white_list=None if white is None else list(white),
              epsilon=case["epsilon"], max_iter=case["max_iter"], show_progress=False)
    res = out.call("estimate", hc.estimate, **kw)
    if res is RAISED:
        return
    E = {tuple(e) for e in res.edges()}
    detail = f"result={sorted(E)} start={start} fixed={sorted(fixed)} black={None if black is None else sorted(black)} white={None if white is None else sorted(white)} max_indegree={mi}"
    if set(res.nodes()) != set(cols):
        out.fail("hc:node_set", f"{sorted(res.nodes())} vs {cols}")
        return
    if not OCP.is_acyclic(cols, E):
        out.fail("hc:cyclic", detail)
        return
    if not fixed <= E:
        out.fail("hc:fixed_edge_missing", detail)
    if black and E & black:
        out.fail("hc:black_listed_edge", detail)
    base = set(start) | fixed
    if white is not None and not (E - base) <= white:
        out.fail("hc:addition_outside_white_list", detail)
    if mi is not None:
        for v in cols:
            if sum(1 for (_, b) in E if b == v) > mi:
                out.fail("hc:indegree_exceeded", detail)
                break
    sc = _score(case["scoring"], hc.data)

    def total(edges):
        m = BayesianNetwork()
        m.add_nodes_from(cols)
        m.add_edges_from(list(edges))
        return float(sc.score(m))

    s_res, s_start = total(E), total(base)
    if s_res < s_start - 1e-9 * max(1.0, abs(s_start)):
        out.fail("hc:score_below_start", f"{s_res!r} < {s_start!r}; {detail}")
    out.evals = 1
    if case["tabu_length"] == 0 and case["max_iter"] >= 10**6:
        out.cls("local_optimality_checked")
        best = None
        for kind, e, E2 in legal_moves(cols, E, fixed, black or set(), white, mi):
            d = total(E2) - s_res
            out.evals += 1
            if best is None or d > best[0]:
                best = (d, kind, e)
        if best and best[0] >= case["epsilon"] + 1e-9 * max(1.0, abs(s_res)):
            out.fail("hc:improving_move_left", f"{best[1]} {best[2]} improves by {best[0]!r} >= epsilon={case['epsilon']}; {detail}")
    out.nontrivial = len(cols) >= 3 and len(E) >= 2 and bool(fixed or black or white or mi)
    out.sample = {"columns": cols, "n_rows": len(ds["rows"]), "scoring": case["scoring"], "result": sorted(E), "fixed": sorted(fixed), "max_indegree": mi}


# ---------------------------------------------------------------------------------------------- exhaustive
@st.composite
def ex_case(draw):
    ds = draw(gen.data_spec(min_cols=2, max_cols=4, min_rows=4, max_rows=40, min_card=2, max_card=3, kinds=("int",), extra_states=False, dependent=True))
    ds["pass_state_names"] = False
    return {"data": ds, "scoring": draw(st.sampled_from(SCORINGS)), "use_cache": draw(st.booleans())}


def check_ex(case, out):
    from pgmpy.estimators import ExhaustiveSearch
    from pgmpy.models import BayesianNetwork

    ds = case["data"]
    cols = ds["columns"]
    n = len(cols)
    df = build_frame(ds)
    out.cls(f"n{n}", f"scoring_{case['scoring']}")
    out.nontrivial = n >= 3
    sc0 = _score(case["scoring"], df)
    es = out.call("ExhaustiveSearch", ExhaustiveSearch, df, scoring_method=sc0, use_cache=case["use_cache"])
    if es is RAISED:
        return
    sc = _score(case["scoring"], df)

    def total(edges):
        m = BayesianNetwork()
        m.add_nodes_from(cols)
        m.add_edges_from(list(edges))
        return float(sc.score(m))

    srt = sorted(cols)
    all_scores = {}
    for e in gen.all_dags(n):
        edges = frozenset((srt[a], srt[b]) for a, b in e)
        all_scores[edges] = total(edges)
    best = max(all_scores.values())
    res = out.call("estimate", es.estimate)
    out.evals = len(all_scores)
    if res is not RAISED:
        E = frozenset(tuple(e) for e in res.edges())
        if set(res.nodes()) != set(cols) or E not in all_scores:
            out.fail("exhaustive:not_a_dag_on_the_columns", f"{sorted(E)}")
        elif all_scores[E] < best - 1e-9 * max(1.0, abs(best)):
            out.fail("exhaustive:not_globally_optimal", f"returned {sorted(E)} with {all_scores[E]!r}, optimum {best!r}")
    if n <= 3:
        al = out.call("all_scores", es.all_scores)
        if al is not RAISED:
            al = list(al)
            if len(al) != len(all_scores):
                out.fail("all_scores:count", f"{len(al)} vs {len(all_scores)}")
            if any(al[i][0] > al[i + 1][0] + 1e-12 for i in range(len(al) - 1)):
                out.fail("all_scores:not_sorted", "")
            for s, g in al:
                E = frozenset(tuple(e) for e in g.edges())
                if E not in all_scores or abs(all_scores[E] - float(s)) > 1e-8 * max(1.0, abs(s)):
                    out.fail("all_scores:wrong_score", f"{sorted(E)}: {float(s)!r} vs {all_scores.get(E)!r}")
                    break
    out.sample = {"columns": cols, "n_rows": len(ds["rows"]), "scoring": case["scoring"]}


# ---------------------------------------------------------------------------------------------- trees
def mutual_info(xs, ys):
    n = len(xs)
    cxy, cx, cy = {}, {}, {}
    for a, b in zip(xs, ys):
        cxy[(a, b)] = cxy.get((a, b), 0) + 1
        cx[a] = cx.get(a, 0) + 1
        cy[b] = cy.get(b, 0) + 1
    return sum(c / n * math.log(c * n / (cx[a] * cy[b])) for (a, b), c in cxy.items())


def all_trees(n):
    """edge lists of all labelled trees on 0..n-1 via Pruefer sequences"""
    if n == 1:
        yield []
        return
    if n == 2:
        yield [(0, 1)]
        return
    for seq in itertools.product(range(n), repeat=n - 2):
        deg = [1] * n
        for s in seq:
            deg[s] += 1
        edges = []
        for s in seq:
            for j in range(n):
                if deg[j] == 1:
                    edges.append((j, s))
                    deg[j] -= 1
                    deg[s] -= 1
                    break
        u, v = [j for j in range(n) if deg[j] == 1]
        edges.append((u, v))
        yield edges


@st.composite
def tree_case(draw):
    ds = draw(gen.data_spec(min_cols=3, max_cols=6, min_rows=12, max_rows=60, min_card=2, max_card=3, kinds=("int",), extra_states=False, dependent=True))
    ds["pass_state_names"] = False
    cols = ds["columns"]
    kind = draw(st.sampled_from(["chow-liu", "chow-liu", "tan"]))
    wf = draw(st.sampled_from(["mutual_info", "mutual_info", "adjusted_mutual_info", "normalized_mutual_info", "callable"]))
    order = list(draw(st.permutations(cols)))
    return {"data": ds, "kind": kind, "weights_fn": wf, "root": order[0] if draw(st.integers(0, 3)) > 0 else None, "class_node": order[1]}


def _callable_weight(x, y):
    # deterministic, symmetric, positive: 1 + fraction of rows where the two columns agree after reducing mod 2
    x, y = list(x), list(y)
    return 1.0 + sum(1 for a, b in zip(x, y) if int(a) % 2 == int(b) % 2) / len(x)


def check_tree(case, out):
    from pgmpy.estimators import TreeSearch

    ds = case["data"]
    cols = ds["columns"]
    df = build_frame(ds)
    kind, wf = case["kind"], case["weights_fn"]
    out.cls(f"kind_{kind}", f"weights_{wf}", f"n{len(cols)}")
    data_cols = {c: [ds["states"][j][r[j]] for r in ds["rows"]] for j, c in enumerate(cols)}
    if wf == "mutual_info":
        fn = mutual_info
    elif wf == "callable":
        fn = _callable_weight
    else:
        from sklearn.metrics import adjusted_mutual_info_score, normalized_mutual_info_score

        fn = adjusted_mutual_info_score if wf.startswith("adjusted") else normalized_mutual_info_score
    feats = [c for c in cols if not (kind == "tan" and c == case["class_node"])]
    if kind == "tan":
        cl = data_cols[case["class_node"]]
        n = len(cl)

        def w(u, v):
            tot = 0.0
            for val in sorted(set(cl)):
                idx = [i for i in range(n) if cl[i] == val]
                tot += len(idx) / n * float(fn([data_cols[u][i] for i in idx], [data_cols[v][i] for i in idx]))
            return tot
    else:
        def w(u, v):
            return float(fn(data_cols[u], data_cols[v]))
    W = {frozenset((u, v)): w(u, v) for u, v in itertools.combinations(feats, 2)}
    if any(x <= 1e-9 for x in W.values()) or len(feats) < 2:
        out.cls("non_positive_weight_skipped")
        out.evals = 0
        return
    root = case["root"]
    if kind == "tan" and (root is None or root == case["class_node"]):
        root = feats[0]  # TAN is exercised with an explicit root among the features
    ts = out.call("TreeSearch", TreeSearch, df, root_node=root, n_jobs=1)
    if ts is RAISED:
        return
    kw = dict(estimator_type=kind, edge_weights_fn=(_callable_weight if wf == "callable" else wf), show_progress=False)
    if kind == "tan":
        kw["class_node"] = case["class_node"]
    res = out.call(f"estimate[{kind}]", ts.estimate, **kw)
    if res is RAISED:
        return
    E = [tuple(e) for e in res.edges()]
    out.nontrivial = len(feats) >= 4
    detail = f"edges={E} root={root} class={case['class_node'] if kind == 'tan' else None}"
    if set(res.nodes()) != set(cols):
        out.fail("tree:node_set", detail)
        return
    tree_edges = [e for e in E if not (kind == "tan" and e[0] == case["class_node"])]
    if kind == "tan":
        if {e[1] for e in E if e[0] == case["class_node"]} != set(feats) or any(e[1] == case["class_node"] for e in E):
            out.fail("tan:class_node_not_parent_of_every_feature", detail)
            return
    if len(tree_edges) != len(feats) - 1:
        out.fail("tree:edge_count", detail)
        return
    und = [frozenset(e) for e in tree_edges]
    if len(gen._components(feats, tree_edges)) != 1:
        out.fail("tree:not_connected", detail)
        return
    indeg = {v: sum(1 for e in tree_edges if e[1] == v) for v in feats}
    roots = [v for v in feats if indeg[v] == 0]
    if len(roots) != 1 or any(indeg[v] != 1 for v in feats if v not in roots):
        out.fail("tree:not_directed_away_from_a_single_root", detail)
        return
    if root is not None and roots[0] != root:
        out.fail("tree:wrong_root", detail + f" actual_root={roots[0]}")
    got_w = sum(W[e] for e in und)
    best = max(sum(W[frozenset((feats[a], feats[b]))] for a, b in t) for t in all_trees(len(feats)))
    out.evals = 1
    if got_w < best - 1e-9 * max(1.0, abs(best)):
        out.fail("tree:not_maximum_weight", f"weight {got_w!r} < maximum {best!r}; {detail}")
    out.sample = {"columns": cols, "kind": kind, "weights_fn": wf, "edges": E}


SUBCHECKS = [
    Sub("hill_climb_tabu0", check_hc, strategy=lambda tier: hc_case(5, focus="tabu0"), n={"quick": 40, "thorough": 400}, shards={"quick": 8, "thorough": 16},
        doc="hill climbing with the tabu list disabled from dense start graphs, run to convergence: local optimality of the result"),
    Sub("hill_climb", check_hc, strategy=lambda tier: hc_case(4 if tier == "quick" else 5), n={"quick": 40, "thorough": 600},
        shards={"quick": 12, "thorough": 16}, doc="HillClimbSearch.estimate: acyclic, node set, fixed/black/white lists, in-degree, score >= start, no improving legal move when tabu is off"),
    Sub("exhaustive", check_ex, strategy=lambda tier: ex_case(), n={"quick": 10, "thorough": 100},
        shards={"quick": 4, "thorough": 8}, doc="ExhaustiveSearch.estimate is globally optimal over all DAGs; all_scores complete, sorted, correct"),
    Sub("tree_search", check_tree, strategy=lambda tier: tree_case(), n={"quick": 50, "thorough": 600},
        shards={"quick": 4, "thorough": 8}, doc="TreeSearch chow-liu / tan: spanning tree directed away from the root with maximum total weight; class node parent of every feature"),
]
PREDICATES = {}
