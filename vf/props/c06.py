"""C06 — parameter learning returns the closed-form estimates."""
import itertools
import math

from hypothesis import strategies as st

from .. import gen
from ..core import RAISED, Sub
from ..oracle import counts as OC
from ..spec import build_frame, frame_state_names

RULE = (
    "cases = a complete discrete data frame (2-5 columns, 1-40 rows, cards 1-4, int / categorical / object columns, "
    "declared states that never occur, sparse data leaving parent configurations unobserved, optional integer "
    "_weight column) + a random DAG over the columns with random edge-insertion order + estimator (MLE via "
    "get_parameters/estimate_cpd/model.fit/DAG.fit, Bayesian with K2 / BDeu (scalar or per-node ess) / Dirichlet "
    "(scalar or explicit arrays), fit_update from an existing network whose CPDs list parents in arbitrary order, "
    "EM with 1-2 latent nodes). Oracle = counts by plain loops and the closed forms; EM: observed-data "
    "log-likelihood by summing the joint over latent states. non-trivial = some node has >= 2 parents, an "
    "unobserved parent configuration or an unobserved declared state exists, and the data has >= 3 distinct rows."
)
ASSUMPTIONS = [
    "complete data; string column names (estimators sort parent names); int / categorical / object-dtype columns "
    "(pandas-3 'str' columns are rejected by preprocess_data in this environment)",
    "explicit Dirichlet pseudo-count arrays are indexed by the sorted parent list and declared state order, as documented",
    "when no state_names are passed the library knows only the observed states; the reference then uses the same lists",
    "EM: iterates are observed through fresh estimators with max_iter=k and identical seed; slack 1e-7*|ll| because "
    "the E-step clamps probabilities at 1e-10",
]


@st.composite
def dag_over(draw, cols, max_parents=3):
    topo = list(draw(st.permutations(cols)))
    _, e = draw(gen.dag_edges(len(cols), max_parents))
    edges = [[topo[i], topo[j]] for i, j in e]
    edges = list(draw(st.permutations(edges))) if edges else []
    node_order = list(draw(st.permutations(cols)))
    return {"nodes": node_order, "edges": [list(x) for x in edges]}


@st.composite
def fit_case(draw):
    weights = draw(st.integers(0, 3)) == 0
    ds = draw(gen.data_spec(weights=weights))
    dag = draw(dag_over(ds["columns"]))
    est = draw(st.sampled_from(["mle", "mle", "k2", "bdeu", "bdeu_dict", "dirichlet_scalar", "dirichlet_array"]))
    api = draw(st.sampled_from(["get_parameters", "estimate_cpd", "model.fit", "dag.fit"]))
    args = {}
    if est == "bdeu":
        args["ess"] = draw(st.sampled_from([0.1, 1, 5, 5.5, 20]))
    if est == "bdeu_dict":
        args["ess"] = {c: draw(st.sampled_from([0.5, 1, 3, 10])) for c in ds["columns"]}
    if est == "dirichlet_scalar":
        args["pc"] = draw(st.sampled_from([0.5, 1, 2, 3.5]))
    if est == "dirichlet_array":
        args["pc_seed"] = draw(st.integers(0, 10**6))
    perm_rows = list(draw(st.permutations(list(range(len(ds["rows"]))))))
    perm_cols = list(draw(st.permutations(ds["columns"])))
    return {"data": ds, "dag": dag, "est": est, "api": api, "args": args, "perm_rows": perm_rows, "perm_cols": perm_cols}


def _parents(dag):
    par = {v: [] for v in dag["nodes"]}
    for u, v in dag["edges"]:
        par[v].append(u)
    return par


def _pc_array(seed, r, q):
    # deterministic pseudo-count array in [0.25, 4.0] from an integer seed (no RNG)
    out = []
    x = seed % 9973 + 1
    for i in range(r):
        row = []
        for j in range(q):
            x = (x * 7919 + 104729) % 1000003
            row.append(0.25 * (1 + x % 16))
        out.append(row)
    return out


def reference_cpds(ds, dag, est, args, states, weighted):
    """{child: {(child_state, frozenset((parent, state)...)): p}} by the closed forms"""
    par = _parents(dag)
    out = {}
    for v in dag["nodes"]:
        ps = sorted(par[v])
        N = OC.counts(ds, v, ps, states=states, weighted=weighted)
        r = len(states[v])
        q = len(N)
        if est == "dirichlet_array":
            arr = _pc_array(args["pc_seed"] + sum(map(ord, v)), r, q)
        tab = {}
        for j, (cfg, row) in enumerate(N.items()):
            nij = sum(row.values())
            for k, s in enumerate(states[v]):
                if est == "mle":
                    p = row[s] / nij if nij > 0 else 1.0 / r
                else:
                    if est == "k2":
                        a = 1.0
                    elif est in ("bdeu", "bdeu_dict"):
                        ess = args["ess"][v] if isinstance(args["ess"], dict) else args["ess"]
                        a = float(ess) / (r * q)
                    elif est == "dirichlet_scalar":
                        a = float(args["pc"])
                    else:
                        a = None
                    if a is not None:
                        p = (row[s] + a) / (nij + a * r)
                    else:
                        p = (row[s] + arr[k][j]) / (nij + sum(arr[kk][j] for kk in range(r)))
                tab[(s, frozenset(zip(ps, cfg)))] = p
        out[v] = tab
    return out


def cpd_named(cpd):
    import numpy as np

    vars_ = list(cpd.variables)
    vals = np.asarray(cpd.values, dtype=float)
    names = [cpd.state_names[v] for v in vars_]
    out = {}
    for idxs in itertools.product(*[range(len(s)) for s in names]):
        out[(names[0][idxs[0]], frozenset((v, names[i][j]) for i, (v, j) in enumerate(zip(vars_, idxs)) if i > 0))] = float(vals[idxs])
    return out


def _cmp(out, tag, cpd, want, states, v):
    if list(cpd.state_names[v]) != list(states[v]):
        out.fail(f"{tag}:state_names", f"{v}: {cpd.state_names[v]} vs {states[v]}")
        return
    got = cpd_named(cpd)
    if set(got) != set(want):
        out.fail(f"{tag}:assignments", f"{v}: {len(got)} vs {len(want)} cells; scope {cpd.variables}")
        return
    for k, w in want.items():
        if abs(got[k] - w) > 1e-9:
            out.fail(f"{tag}:value", f"P({v}={k[0]!r} | {sorted(map(str, k[1]))}) got {got[k]!r} want {w!r}")
            return


def _model(dag, cls="bn"):
    from pgmpy.base import DAG
    from pgmpy.models import BayesianNetwork

    m = BayesianNetwork() if cls == "bn" else DAG()
    m.add_nodes_from(dag["nodes"])
    for u, v in dag["edges"]:
        m.add_edge(u, v)
    return m


def _estimate(case, df, states, out, tag):
    """run the chosen estimator/API; returns {node: cpd} or RAISED"""
    from pgmpy.estimators import BayesianEstimator, MaximumLikelihoodEstimator

    ds, dag, est, api, args = case["data"], case["dag"], case["est"], case["api"], case["args"]
    weighted = bool(ds.get("weights"))
    sn = frame_state_names(ds) if ds.get("pass_state_names") else None
    kw_est = {"state_names": sn} if sn else {}
    par = _parents(dag)
    bkw = {}
    if est != "mle":
        bkw = {"prior_type": {"k2": "K2", "bdeu": "BDeu", "bdeu_dict": "BDeu", "dirichlet_scalar": "dirichlet", "dirichlet_array": "dirichlet"}[est]}
        if est in ("bdeu", "bdeu_dict"):
            bkw["equivalent_sample_size"] = args["ess"]
        if est == "dirichlet_scalar":
            bkw["pseudo_counts"] = args["pc"]
        if est == "dirichlet_array":
            bkw["pseudo_counts"] = {
                v: _pc_array(args["pc_seed"] + sum(map(ord, v)), len(states[v]), int(math.prod(len(states[p]) for p in par[v])))
                for v in dag["nodes"]
            }
    if api in ("get_parameters", "estimate_cpd"):
        model = _model(dag)
        E = MaximumLikelihoodEstimator if est == "mle" else BayesianEstimator
        e = out.call(f"{tag}:estimator", E, model, df, **kw_est)
        if e is RAISED:
            return RAISED
        if api == "get_parameters":
            r = out.call(f"{tag}:get_parameters", e.get_parameters, n_jobs=1, weighted=weighted, **bkw)
            if r is RAISED:
                return RAISED
            return {c.variable: c for c in r}
        res = {}
        for v in dag["nodes"]:
            kw = dict(bkw)
            if est == "bdeu_dict":
                kw["equivalent_sample_size"] = args["ess"][v]
            if est == "dirichlet_array":
                kw["pseudo_counts"] = bkw["pseudo_counts"][v]
            c = out.call(f"{tag}:estimate_cpd", e.estimate_cpd, v, weighted=weighted, **kw)
            if c is RAISED:
                return RAISED
            res[v] = c
        return res
    model = _model(dag, "bn" if api == "model.fit" else "dag")
    from pgmpy.estimators import BayesianEstimator as BE, MaximumLikelihoodEstimator as ME

    fkw = dict(bkw)
    if sn:
        fkw["state_names"] = sn
    if weighted:
        fkw["weighted"] = True
    r = out.call(f"{tag}:{api}", model.fit, df, estimator=(ME if est == "mle" else BE), n_jobs=1, **fkw)
    if r is RAISED:
        return RAISED
    fitted = model if api == "model.fit" else r
    if fitted is None:
        out.fail(f"{tag}:{api}:returned_none", "")
        return RAISED
    if set(fitted.nodes()) != set(dag["nodes"]):
        out.fail(f"{tag}:{api}:node_set", f"{sorted(fitted.nodes())} vs {sorted(dag['nodes'])}")
        return RAISED
    ok = out.call(f"{tag}:{api}:check_model", fitted.check_model)
    return {c.variable: c for c in fitted.get_cpds()}


def check_fit(case, out):
    ds, dag, est, api = case["data"], case["dag"], case["est"], case["api"]
    states = OC.effective_states(ds)
    weighted = bool(ds.get("weights"))
    par = _parents(dag)
    want = reference_cpds(ds, dag, est, case["args"], states, weighted)
    distinct_rows = len({tuple(r) for r in ds["rows"]})
    unobs_cfg = any(sum(row.values()) == 0 for v in dag["nodes"] for row in OC.counts(ds, v, sorted(par[v]), states=states).values())
    unobs_state = ds.get("pass_state_names") and any(len({r[j] for r in ds["rows"]}) < len(ds["states"][j]) for j in range(len(ds["columns"])))
    out.nontrivial = any(len(p) >= 2 for p in par.values()) and (unobs_cfg or bool(unobs_state)) and distinct_rows >= 3
    out.cls(f"est_{est}", f"api_{api}", f"kind_{ds['kinds'][0]}", "weighted" if weighted else "unweighted")
    if unobs_cfg:
        out.cls("unobserved_parent_configuration")
    if unobs_state:
        out.cls("unobserved_declared_state")
    df = build_frame(ds, with_weights=weighted)
    res = _estimate(case, df, states, out, "fit")
    out.evals = 1
    if res is RAISED:
        return
    if set(res) != set(dag["nodes"]):
        out.fail("fit:cpd_set", f"{sorted(res)} vs {sorted(dag['nodes'])}")
        return
    for v in dag["nodes"]:
        if set(res[v].variables[1:]) != set(par[v]):
            out.fail("fit:cpd_parents", f"{v}: {res[v].variables[1:]} vs {par[v]}")
            return
        _cmp(out, "fit", res[v], want[v], states, v)
    # fitted network validates
    if api in ("get_parameters", "estimate_cpd"):
        m = _model(dag)
        r = out.call("fit:add_cpds", m.add_cpds, *res.values())
        if r is not RAISED:
            out.call("fit:check_model", m.check_model)
    # invariance: rows and columns permuted, edges inserted in another order
    dag2 = {"nodes": list(reversed(dag["nodes"])), "edges": list(reversed(dag["edges"]))}
    df2 = build_frame(ds, with_weights=weighted, row_order=case["perm_rows"], col_order=case["perm_cols"])
    res2 = _estimate(dict(case, dag=dag2), df2, states, out, "fit[permuted]")
    out.evals += 1
    if res2 is not RAISED and set(res2) == set(dag["nodes"]):
        for v in dag["nodes"]:
            _cmp(out, "fit[permuted]", res2[v], want[v], states, v)
    # integer weights == replicated rows
    if weighted and est == "mle" and api == "get_parameters":
        rep = dict(ds, rows=[r for r, w in zip(ds["rows"], ds["weights"]) for _ in range(w)], weights=None)
        want_rep = reference_cpds(rep, dag, est, case["args"], states, False)
        for v in dag["nodes"]:
            for k in want[v]:
                if abs(want[v][k] - want_rep[v][k]) > 1e-12:
                    raise AssertionError("oracle self-check: weighted != replicated")
    out.sample = {"columns": ds["columns"], "n_rows": len(ds["rows"]), "edges": dag["edges"], "est": est, "api": api}


# ---------------------------------------------------------------------------------------------- fit_update
@st.composite
def update_case(draw):
    bn = draw(gen.bn_spec(min_nodes=2, max_nodes=4, name_kinds=("str",), state_kinds=("range", "offset", "str"), min_card=2, max_card=3,
                          col_kinds=("dense", "dense", "zeros")))
    nodes = bn["nodes"]
    nrows = draw(st.integers(1, 25))
    rows = [[draw(st.integers(0, bn["card"][j] - 1)) for j in range(len(nodes))] for _ in range(nrows)]
    n_prev = draw(st.sampled_from([None, 1, 10, 50, 1000]))
    return {"bn": bn, "rows": rows, "n_prev": n_prev}


def check_update(case, out):
    from ..spec import build_bn

    bn, rows, n_prev = case["bn"], case["rows"], case["n_prev"]
    nodes = bn["nodes"]
    states = {v: list(s) for v, s in zip(nodes, bn["states"])}
    strs = any(isinstance(x, str) for s in bn["states"] for x in s)
    ds = {"columns": nodes, "states": bn["states"], "kinds": [("obj" if isinstance(s[0], str) else "int") for s in bn["states"]], "rows": rows, "weights": None, "pass_state_names": True}
    par = {c["var"]: list(c["parents"]) for c in bn["cpds"]}
    out.nontrivial = any(len(p) >= 2 and p != sorted(p) for p in par.values())
    if out.nontrivial:
        out.cls("parents_declared_unsorted")
    out.cls("str_states" if strs else "int_states")
    model = out.call("build", build_bn, bn)
    if model is RAISED:
        return
    old = {c["var"]: c for c in bn["cpds"]}
    n0 = len(rows) if n_prev is None else n_prev
    df = build_frame(ds)
    r = out.call("fit_update", model.fit_update, df, n_prev_samples=n_prev, n_jobs=1)
    if r is RAISED:
        return
    idx = {v: i for i, v in enumerate(nodes)}
    for v in nodes:
        ps_old = old[v]["parents"]
        pcards = [bn["card"][idx[p]] for p in ps_old]

        def p_old(k, cfg):  # cfg: dict parent -> state name
            col = 0
            for p, c in zip(ps_old, pcards):
                col = col * c + states[p].index(cfg[p])
            return old[v]["table"][k][col]

        ps = sorted(par[v])
        N = OC.counts(ds, v, ps, states=states)
        want = {}
        for cfg, row in N.items():
            cd = dict(zip(ps, cfg))
            alpha = [n0 * p_old(k, cd) for k in range(len(states[v]))]
            tot = sum(row.values()) + sum(alpha)
            for k, s in enumerate(states[v]):
                want[(s, frozenset(cd.items()))] = (row[s] + alpha[k]) / tot if tot > 0 else None
        cpd = model.get_cpds(v)
        if set(cpd.variables[1:]) != set(ps):
            out.fail("fit_update:cpd_parents", f"{v}: {cpd.variables}")
            continue
        got = cpd_named(cpd)
        for k, w in want.items():
            if w is None:
                continue
            if k not in got or abs(got[k] - w) > 1e-9:
                out.fail("fit_update:value", f"P({v}={k[0]!r} | {sorted(map(str, k[1]))}) got {got.get(k)!r} want {w!r}; old parent order {ps_old}, n_prev={n0}")
                break
    out.call("fit_update:check_model", model.check_model)
    out.sample = {"edges": bn["edges"], "n_rows": len(rows), "n_prev": n_prev}


# ---------------------------------------------------------------------------------------------- EM
@st.composite
def em_case(draw):
    n_obs = draw(st.integers(2, 3))
    n_lat = draw(st.sampled_from([0, 1, 1, 1, 2]))
    obs = ["A", "B", "C"][:n_obs]
    lat = ["L", "M"][:n_lat]
    nodes = obs + lat
    topo = list(draw(st.permutations(nodes)))
    _, e = draw(gen.dag_edges(len(nodes), 2, shape=draw(st.sampled_from(["random", "fork", "chain", "dense"]))))
    edges = [[topo[i], topo[j]] for i, j in e]
    # every latent needs a child or parent to matter; keep whatever was drawn
    card = {v: draw(st.integers(2, 3)) for v in obs}
    lcard = {v: draw(st.integers(2, 3)) for v in lat}
    nrows = draw(st.integers(3, 14))
    rows = [[draw(st.integers(0, card[v] - 1)) for v in obs] for _ in range(nrows)]
    # optional explicit initial CPDs for every latent node and every child of a latent node
    init = None
    if lat and draw(st.booleans()):
        par = {v: [] for v in nodes}
        for u, v in edges:
            par[v].append(u)
        obs_states = {v: sorted({r[i] for r in rows}) for i, v in enumerate(obs)}
        k_of = lambda v: lcard[v] if v in lcard else len(obs_states[v])  # noqa: E731
        init = []
        for v in nodes:
            if v in lat or any(p in lat for p in par[v]):
                ps = list(draw(st.permutations(par[v])))
                ncol = 1
                for p in ps:
                    ncol *= k_of(p)
                cols = [draw(gen.column(k_of(v), ("dense",))) for _ in range(ncol)]
                init.append({"var": v, "parents": ps, "table": [[cols[j][i] for j in range(ncol)] for i in range(k_of(v))]})
    return {"obs": obs, "lat": lat, "edges": edges, "card": card, "lcard": lcard, "rows": rows, "init": init,
            "seed": draw(st.integers(0, 1000)), "iters": draw(st.integers(3, 5)),
            # the E-step works on batches of distinct rows: sizes that do not divide their number leave a partial last batch
            "batch_size": draw(st.sampled_from([1000, 1000, 1, 2, 3, 5, 7]))}


def _obs_loglik(cpds, case, states):
    """sum_rows log sum_latent prod_cpd P(.)  from named CPD tables"""
    lat = case["lat"]
    lat_states = [states[v] for v in lat]
    tabs = [(c.variable, list(c.variables[1:]), cpd_named(c)) for c in cpds]
    ll = 0.0
    for r in case["rows"]:
        base = {v: float(x) for v, x in zip(case["obs"], r)}  # integer data become float state names
        tot = 0.0
        for ls in itertools.product(*lat_states):
            a = dict(base)
            a.update(dict(zip(lat, ls)))
            p = 1.0
            for v, ps, t in tabs:
                p *= t[(a[v], frozenset((q, a[q]) for q in ps))]
            tot += p
        ll += math.log(max(tot, 1e-300))
    return ll


def check_em(case, out):
    import pandas as pd
    from pgmpy.estimators import ExpectationMaximization, MaximumLikelihoodEstimator
    from pgmpy.models import BayesianNetwork

    obs, lat = case["obs"], case["lat"]
    df = pd.DataFrame({v: pd.Series([r[i] for r in case["rows"]], dtype="int64") for i, v in enumerate(obs)})

    def mk():
        m = BayesianNetwork(latents=set(lat))
        for v in obs:
            m.add_node(v)
        for v in lat:
            m.add_node(v, latent=True)
        for u, v in case["edges"]:
            m.add_edge(u, v)
        return m

    states = {v: sorted({r[i] for r in case["rows"]}) for i, v in enumerate(obs)}
    states = {v: [float(x) for x in s] for v, s in states.items()}
    for v in lat:
        states[v] = list(range(case["lcard"][v]))
    out.cls(f"latents{len(lat)}")
    out.nontrivial = len(lat) >= 1 and any(u in lat or v in lat for u, v in case["edges"])
    lls = []
    out.evals = 0
    last = None

    def init_cpds():
        from pgmpy.factors.discrete import TabularCPD

        d = {}
        for c in case.get("init") or []:
            sn = {x: list(states[x]) for x in [c["var"]] + c["parents"]}
            kw = dict(evidence=list(c["parents"]), evidence_card=[len(states[p]) for p in c["parents"]]) if c["parents"] else {}
            d[c["var"]] = TabularCPD(c["var"], len(states[c["var"]]), c["table"], state_names=sn, **kw)
        return d

    if case.get("init"):
        out.cls("explicit_init_cpds")
        # log-likelihood of the starting point: given initial CPDs + maximum-likelihood CPDs for the other nodes
        par = {v: sorted(u for u, w in case["edges"] if w == v) for v in obs + lat}
        init_d = init_cpds()
        start = list(init_d.values())
        ds0 = {"columns": obs, "states": [[float(x) for x in sorted({r[i] for r in case["rows"]})] for i in range(len(obs))],
               "rows": [[sorted({q[i] for q in case["rows"]}).index(r[i]) for i in range(len(obs))] for r in case["rows"]], "pass_state_names": True}
        ok0 = True
        from pgmpy.factors.discrete import TabularCPD

        for v in obs:
            if v in init_d:
                continue
            N = OC.counts(ds0, v, par[v], states={c: s for c, s in zip(obs, ds0["states"])})
            r = len(states[v])
            cols = []
            for cfg, row in N.items():
                n = sum(row.values())
                cols.append([(row[s] / n if n else 1.0 / r) for s in states[v]])
            tab = [[cols[j][i] for j in range(len(cols))] for i in range(r)]
            kw = dict(evidence=par[v], evidence_card=[len(states[p]) for p in par[v]]) if par[v] else {}
            start.append(TabularCPD(v, r, tab, state_names={x: list(states[x]) for x in [v] + par[v]}, **kw))
        lls.append(_obs_loglik(start, dict(case), states))
    for k in range(1, case["iters"] + 1):
        em = out.call("EM", ExpectationMaximization, mk(), df)
        if em is RAISED:
            return
        cpds = out.call("EM.get_parameters", em.get_parameters, latent_card=dict(case["lcard"]) or None, max_iter=k, seed=case["seed"], n_jobs=1, show_progress=False, batch_size=case.get("batch_size", 1000), init_cpds=init_cpds())
        out.evals += 1
        if cpds is RAISED:
            return
        if {c.variable for c in cpds} != set(obs + lat):
            out.fail("EM:cpd_set", f"{[c.variable for c in cpds]}")
            return
        for c in cpds:
            vals = c.get_values()
            if abs(float(vals.sum(axis=0).max()) - 1) > 1e-6 or abs(float(vals.sum(axis=0).min()) - 1) > 1e-6:
                out.fail("EM:cpd_not_normalised", f"{c.variable}")
                return
        # states as the CPDs carry them
        st2 = {c.variable: list(c.state_names[c.variable]) for c in cpds}
        lls.append(_obs_loglik(cpds, dict(case), {**states, **st2}))
        last = cpds
    for a, b in zip(lls, lls[1:]):
        if b < a - 1e-7 * abs(a) - 1e-9:
            out.fail("EM:likelihood_decreased", f"log-likelihoods by iteration {lls}")
            break
    # determinism given the seed
    em = ExpectationMaximization(mk(), df)
    again = out.call("EM.get_parameters[repeat]", em.get_parameters, latent_card=dict(case["lcard"]) or None, max_iter=case["iters"], seed=case["seed"], n_jobs=1, show_progress=False, batch_size=case.get("batch_size", 1000), init_cpds=init_cpds())
    if again is not RAISED and last is not None:
        a = {c.variable: cpd_named(c) for c in again}
        b = {c.variable: cpd_named(c) for c in last}
        if any(abs(a[v][k] - b[v][k]) > 1e-12 for v in a for k in a[v]):
            out.fail("EM:not_reproducible_with_seed", "")
    if not lat and last is not None:
        m = mk()
        mle = {c.variable: cpd_named(c) for c in MaximumLikelihoodEstimator(m, df).get_parameters()}
        for c in last:
            g = cpd_named(c)
            if any(abs(g[k] - mle[c.variable][k]) > 1e-9 for k in g):
                out.fail("EM:differs_from_mle_without_latents", f"{c.variable}")
                break
    out.sample = {"obs": obs, "lat": lat, "edges": case["edges"], "n_rows": len(case["rows"]), "loglik": lls}


THOROUGH_SCALE = 3  # thorough-tier example counts are n["thorough"] x this (one thorough run then takes roughly 5-10 minutes on 16 cores)
SUBCHECKS = [
    Sub("fit", check_fit, strategy=lambda tier: fit_case(), n={"quick": 120, "thorough": 2000},
        shards={"quick": 10, "thorough": 16}, doc="MLE / Bayesian (K2, BDeu, Dirichlet) through get_parameters, estimate_cpd, model.fit, DAG.fit vs closed forms; validation; row/column/edge-order invariance"),
    Sub("fit_update", check_update, strategy=lambda tier: update_case(), n={"quick": 80, "thorough": 1200},
        shards={"quick": 3, "thorough": 8}, doc="BayesianNetwork.fit_update equals Bayesian fitting with n_prev * old CPD as Dirichlet prior (old CPD read by named assignment)"),
    Sub("em", check_em, strategy=lambda tier: em_case(), n={"quick": 25, "thorough": 250},
        shards={"quick": 8, "thorough": 16}, doc="EM: observed-data log-likelihood non-decreasing over iterations, reproducible with seed, equals MLE without latents"),
]
PREDICATES = {}
