"""C14 — model conversions preserve the distribution and produce valid targets."""
import itertools

from hypothesis import strategies as st

from .. import gen
from ..core import RAISED, Sub
from ..oracle.dsep import G
from ..oracle.joint import Joint, compare_named
from ..spec import build_bn, build_fg, build_mn, factor_to_named

RULE = (
    "cases = Bayesian-network specs (1-6 nodes) and Markov-network / factor-graph specs (2-6 nodes; cycles, "
    "trees, dense and random scopes, unary factors, duplicate and equal factors, isolated variables with a unary "
    "factor; connected or not) x conversion (BN->MN, MN->FG->MN, MN/FG/BN->junction tree, triangulate with "
    "H1-H6 or an explicit order, in place or not). Oracle = brute-force joint and partition function of the "
    "source, plus graph definitions written out (moral graph, chordality by simplicial elimination, clique-tree "
    "validity with running intersection per variable). non-trivial = >= 2 factors with equal scope, or a graph "
    "that needs >= 1 fill-in edge; distinct = sha1 of the case."
)
ASSUMPTIONS = [
    "clique-tree targets are required only for connected interaction graphs; disconnected ones must be rejected with ValueError",
    "hand-built factor graphs contain no two equal factors (the library rejects them)",
    "distributions are compared after normalisation with tolerance 1e-9; partition functions with 1e-9 relative",
]
HEUR = ["H1", "H2", "H3", "H4", "H5", "H6"]


def und_edges(edges):
    return {frozenset(e) for e in edges}


def is_chordal(nodes, edges):
    adj = {v: set() for v in nodes}
    for e in edges:
        a, b = tuple(e)
        adj[a].add(b)
        adj[b].add(a)
    left = set(nodes)
    while left:
        simp = None
        for v in left:
            nb = adj[v] & left
            if all(b in adj[a] for a, b in itertools.combinations(nb, 2)):
                simp = v
                break
        if simp is None:
            return False
        left.discard(simp)
    return True


def connected(nodes, edges):
    return len(gen._components(list(nodes), [tuple(e) for e in edges])) <= 1


def check_clique_tree(out, tag, jt, spec, J, factor_scopes):
    """validity of a junction tree for the model described by spec / J"""
    nodes = spec["nodes"]
    cliques = [tuple(c) for c in jt.nodes()]
    tedges = [tuple(e) for e in jt.edges()]
    if any(len(set(c)) != len(c) for c in cliques):
        out.fail(f"{tag}:clique_repeats_variable", str(cliques))
        return False
    if set().union(*[set(c) for c in cliques]) != set(nodes):
        out.fail(f"{tag}:cliques_do_not_cover_variables", f"{cliques} vs {nodes}")
        return False
    if len(tedges) != len(cliques) - 1 or not connected(cliques, tedges):
        out.fail(f"{tag}:not_a_tree", f"cliques={cliques} edges={tedges}")
        return False
    for sc in factor_scopes:
        if not any(set(sc) <= set(c) for c in cliques):
            out.fail(f"{tag}:factor_scope_not_covered", f"{sc} cliques={cliques}")
            return False
    for v in nodes:
        holders = [c for c in cliques if v in c]
        sub = [e for e in tedges if v in e[0] and v in e[1]]
        if not connected(holders, sub):
            out.fail(f"{tag}:running_intersection_violated", f"variable {v!r} cliques={cliques} edges={tedges}")
            return False
    # potentials: one per clique, product proportional to the joint, state names kept
    fs = jt.get_factors()
    for phi in fs:
        for v in phi.variables:
            if list(phi.state_names[v]) != list(spec["states"][J.idx[v]]):
                out.fail(f"{tag}:potential_state_names", f"{phi.variables} {v!r}: {phi.state_names[v]} vs {spec['states'][J.idx[v]]}")
                return False
    tab = {}
    for a in J.table:
        p = 1.0
        for phi in fs:
            p *= float(phi.values[tuple(a[J.idx[v]] for v in phi.variables)])
        tab[a] = p
    z1, z0 = sum(tab.values()), J.total()
    if abs(z1 - z0) > 1e-9 * max(abs(z0), 1e-300) + 1e-300:
        out.fail(f"{tag}:partition_function_changed", f"product of clique potentials sums to {z1!r}, model to {z0!r}")
        return False
    for a, p in J.table.items():
        if abs(tab[a] - p) > 1e-9 * max(abs(p), abs(tab[a])) + 1e-15 * z0:
            out.fail(f"{tag}:joint_changed", f"at {a}: {tab[a]!r} vs {p!r}")
            return False
    pf = out.call(f"{tag}:get_partition_function", jt.get_partition_function)
    if pf is not RAISED and abs(float(pf) - z0) > 1e-9 * abs(z0):
        out.fail(f"{tag}:get_partition_function", f"{float(pf)!r} vs {z0!r}")
    return True


# ---------------------------------------------------------------------------------------------- BN
@st.composite
def bn_case(draw):
    spec = draw(gen.bn_spec(min_nodes=1, max_nodes=6, connected=draw(st.integers(0, 3)) > 0))
    return {"spec": spec}


def check_bn(case, out):
    spec = case["spec"]
    nodes = spec["nodes"]
    g = G(nodes, spec["edges"])
    J = Joint.from_bn(spec)
    model = out.call("build", build_bn, spec)
    if model is RAISED:
        return
    out.cls(f"names_{spec['name_kind']}", f"shape_{spec['shape']}")
    moral = g.moral_edges()
    out.nontrivial = len(moral) > len(g.skeleton())
    out.evals = 0
    mm = out.call("to_markov_model", model.to_markov_model)
    out.evals += 1
    if mm is not RAISED:
        if und_edges(mm.edges()) != moral or set(mm.nodes()) != set(nodes):
            out.fail("to_markov_model:not_moral_graph", f"edges={list(mm.edges())} want={sorted(map(sorted_repr, moral))}")
        else:
            r = out.call("to_markov_model:check_model", mm.check_model)
            tab = {}
            fs = mm.get_factors()
            if len(fs) != len(nodes):
                out.fail("to_markov_model:factor_count", f"{len(fs)} factors for {len(nodes)} CPDs")
            ok = True
            for phi in fs:
                for v in phi.variables:
                    if list(phi.state_names[v]) != list(spec["states"][J.idx[v]]):
                        out.fail("to_markov_model:state_names", f"{v!r}")
                        ok = False
            if ok:
                for a in J.table:
                    p = 1.0
                    for phi in fs:
                        p *= float(phi.values[tuple(a[J.idx[v]] for v in phi.variables)])
                    tab[a] = p
                if any(abs(tab[a] - p) > 1e-12 + 1e-9 * p for a, p in J.table.items()):
                    out.fail("to_markov_model:joint_changed", "product of factors differs from the CPD product")
            z = out.call("to_markov_model:get_partition_function", mm.get_partition_function)
            if z is not RAISED and abs(float(z) - 1.0) > 1e-9:
                out.fail("to_markov_model:partition_function_not_one", repr(float(z)))
    is_conn = connected(nodes, [tuple(e) for e in moral])
    if is_conn:
        jt = out.call("bn.to_junction_tree", model.to_junction_tree)
        out.evals += 1
        if jt is not RAISED:
            check_clique_tree(out, "bn.to_junction_tree", jt, spec, J, [[c["var"]] + c["parents"] for c in spec["cpds"]])
    else:
        out.cls("disconnected")
        out.expect_raise("bn.to_junction_tree[disconnected]", model.to_junction_tree, exc=ValueError)
    out.sample = {"nodes": nodes, "edges": spec["edges"]}


def sorted_repr(fs):
    return sorted(map(repr, fs))


# ---------------------------------------------------------------------------------------------- MN / FG
@st.composite
def mn_case(draw):
    conn = draw(st.integers(0, 3)) > 0
    spec = draw(gen.mn_spec(min_nodes=2, max_nodes=6, connected=conn))
    nodes = spec["nodes"]
    op = draw(st.sampled_from(["to_factor_graph", "to_junction_tree", "to_junction_tree", "triangulate", "triangulate", "fg"]))
    args = {}
    if op == "triangulate":
        args["heuristic"] = draw(st.sampled_from(HEUR + ["order"]))
        args["order"] = list(draw(st.permutations(nodes)))
        args["inplace"] = draw(st.booleans())
    if op == "fg":
        spec["factors"] = gen.drop_equal_factors(spec)
    elif draw(st.integers(0, 4)) == 0:
        # the same factor object registered twice (a tied potential): it counts twice
        i = draw(st.integers(0, len(spec["factors"]) - 1))
        spec["factors"] = list(spec["factors"]) + [dict(spec["factors"][i])]
        spec["same_object"] = [[i, len(spec["factors"]) - 1]]
        spec["has_duplicate"] = True
    return {"spec": spec, "op": op, "args": args}


def check_mn(case, out):
    spec, op, args = case["spec"], case["op"], case["args"]
    nodes = spec["nodes"]
    J = Joint.from_factors(nodes, spec["states"], spec["factors"])
    edges0 = und_edges(spec["edges"])
    chordal0 = is_chordal(nodes, edges0)
    conn = connected(nodes, spec["edges"])
    scopes = [f["vars"] for f in spec["factors"]]
    equal_scope = len({frozenset(s) for s in scopes}) < len(scopes)
    out.nontrivial = equal_scope or not chordal0
    out.cls(f"op_{op}", f"shape_{spec['shape']}", "connected" if conn else "disconnected", "chordal" if chordal0 else "needs_fill_in")
    if spec.get("has_duplicate"):
        out.cls("duplicate_factor")
    if spec.get("same_object"):
        out.cls("same_factor_object_twice")
    isolated = [v for v in nodes if not any(v in e for e in spec["edges"])]
    if isolated:
        out.cls("isolated_variable")
    if op == "fg":
        model = out.call("build_fg", build_fg, spec)
    else:
        model = out.call("build_mn", build_mn, spec)
    if model is RAISED:
        return
    if out.call("check_model", model.check_model) is RAISED:
        return
    z0 = J.total()
    pf = out.call("get_partition_function", model.get_partition_function)
    if pf is not RAISED and abs(float(pf) - z0) > 1e-9 * abs(z0):
        out.fail(f"{type(model).__name__}.get_partition_function", f"{float(pf)!r} vs {z0!r}")
    if op == "to_factor_graph":
        fg = out.call("to_factor_graph", model.to_factor_graph)
        if fg is RAISED:
            return
        # factor multiset preserved
        got = sorted(core_named(f) for f in fg.get_factors())
        want = sorted(core_named(f) for f in model.get_factors())
        if got != want:
            out.fail("to_factor_graph:factors_changed", f"{len(got)} vs {len(want)} factors")
        z = out.call("to_factor_graph:get_partition_function", fg.get_partition_function)
        if z is not RAISED and abs(float(z) - z0) > 1e-9 * abs(z0):
            out.fail("to_factor_graph:partition_function", f"{float(z)!r} vs {z0!r}")
        ok = out.call("to_factor_graph:check_model", fg.check_model)
        if ok is not RAISED:
            back = out.call("to_factor_graph:to_markov_model", fg.to_markov_model)
            if back is not RAISED:
                z = out.call("roundtrip:get_partition_function", back.get_partition_function)
                if z is not RAISED and abs(float(z) - z0) > 1e-9 * abs(z0):
                    out.fail("roundtrip:partition_function", f"{float(z)!r} vs {z0!r}")
    elif op == "fg":
        mm = out.call("fg.to_markov_model", model.to_markov_model)
        if mm is not RAISED:
            want_e = set()
            for sc in scopes:
                want_e |= {frozenset(p) for p in itertools.combinations(sc, 2)}
            if und_edges(mm.edges()) != want_e or set(mm.nodes()) != set(nodes):
                out.fail("fg.to_markov_model:graph", f"{list(mm.edges())}")
            z = out.call("fg.to_markov_model:get_partition_function", mm.get_partition_function)
            if z is not RAISED and abs(float(z) - z0) > 1e-9 * abs(z0):
                out.fail("fg.to_markov_model:partition_function", f"{float(z)!r} vs {z0!r}")
        fg_edges = set()
        for sc in scopes:
            fg_edges |= {frozenset(p) for p in itertools.combinations(sc, 2)}
        if connected(nodes, [tuple(e) for e in fg_edges]):
            jt = out.call("fg.to_junction_tree", model.to_junction_tree)
            if jt is not RAISED:
                check_clique_tree(out, "fg.to_junction_tree", jt, spec, J, scopes)
    elif op == "to_junction_tree":
        if conn:
            jt = out.call("mn.to_junction_tree", model.to_junction_tree)
            if jt is not RAISED:
                check_clique_tree(out, "mn.to_junction_tree", jt, spec, J, scopes)
        else:
            out.expect_raise("mn.to_junction_tree[disconnected]", model.to_junction_tree, exc=ValueError)
    elif op == "triangulate":
        kw = {"inplace": args["inplace"]}
        if args["heuristic"] == "order":
            kw["order"] = list(args["order"])
        else:
            kw["heuristic"] = args["heuristic"]
        tag = "triangulate[isolated_variable]" if isolated and not chordal0 else "triangulate"
        res = out.call(tag, model.triangulate, **kw)
        if res is RAISED:
            return
        tg = model if args["inplace"] else res
        if tg is None:
            out.fail("triangulate:returned_none", f"{kw}")
            return
        e1 = und_edges(tg.edges())
        if set(tg.nodes()) != set(nodes):
            lab = "triangulate:node_set_changed"
            if set(nodes) - set(tg.nodes()) <= set(isolated):
                lab += "[isolated_variable_dropped]"
            out.fail(lab, f"{sorted(map(repr, tg.nodes()))} vs {sorted(map(repr, nodes))} {kw}")
        if not edges0 <= e1:
            out.fail("triangulate:edge_lost", f"{kw}")
        if not is_chordal(nodes, e1):
            out.fail("triangulate:not_chordal", f"{kw} edges={sorted(map(sorted_repr, e1))}")
        if not args["inplace"] and und_edges(model.edges()) != edges0:
            out.fail("triangulate:mutated_original", f"{kw}")
    out.sample = {"nodes": nodes, "edges": spec["edges"], "factors": scopes, "op": op, "args": args}


def core_named(phi):
    d = factor_to_named(phi)
    return sorted((sorted(map(repr, k)), round(v, 12)) for k, v in d.items())


THOROUGH_SCALE = 4  # thorough-tier example counts are n["thorough"] x this (one thorough run then takes roughly 5-10 minutes on 16 cores)
SUBCHECKS = [
    Sub("bn_conversions", check_bn, strategy=lambda tier: bn_case(), n={"quick": 150, "thorough": 2500},
        shards={"quick": 6, "thorough": 16}, fuzz={"thorough": (2, 300)}, doc="BayesianNetwork.to_markov_model (moral graph, joint, Z=1) and to_junction_tree (clique-tree validity, joint, state names)"),
    Sub("mn_conversions", check_mn, strategy=lambda tier: mn_case(), n={"quick": 250, "thorough": 4000},
        shards={"quick": 8, "thorough": 16}, doc="MarkovNetwork/FactorGraph conversions: to_factor_graph round trip, to_markov_model, to_junction_tree validity, triangulate under H1-H6/explicit order"),
]
PREDICATES = {"nonstring_variable_names": lambda case: case["spec"]["name_kind"] in ("int", "tuple")}
