"""C08 — d-separation answers match the path-based definition."""
import itertools

from hypothesis import strategies as st

from .. import gen
from ..core import RAISED, Sub
from ..oracle.dsep import G
from ..spec import build_dag

RULE = (
    "exhaustive: every labelled DAG on n<=4 (quick) / n<=5 (thorough) nodes x every start node x every observed "
    "subset not containing the start (observed passed as list/set/tuple/single node in rotation, node names "
    "str/int-from-0/tuple in rotation, latent subsets: all for n<=3, rotating for larger n); random: "
    "Hypothesis DAGs on 6-9 nodes. Oracle: enumeration of all simple trails with the textbook activity rule. "
    "A case = one DAG (all its starts/observed sets are evaluated inside it; `evaluations` counts API calls "
    "compared with the oracle). non-trivial = the DAG has a collider or a chain/fork (>= 2 edges sharing a node) "
    "and at least one non-empty observed set was evaluated; enumerated DAGs are distinct by construction."
)
ASSUMPTIONS = [
    "start node is never a member of the observed set (the property does not cover that case)",
    "the single-node form of `observed` is used only for str/int node names (a tuple name is itself a tuple)",
    "independence listings (get_independencies, local_independencies) are checked for string node names only: "
    "IndependenceAssertion documents 'String or List of strings'",
    "minimal_dseparator returning None is accepted when the graph has latent variables (the property only "
    "constrains returned separators, and requires one when there are no latents)",
]
EXHAUSTIVE = {
    "quick": "all labelled DAGs with n<=4 nodes x all (start, observed subset)",
    "thorough": "all labelled DAGs with n<=5 nodes x all (start, observed subset)",
}

NAME_FUNS = {
    "str": lambda i: "ABCDEFGHIJ"[i],
    "int": lambda i: i,
    "intrev": lambda i: 9 - i if i else 0,
    "tuple": lambda i: ("a", i),
    "word": lambda i: ["rain", "x1", "Node_2", "grade", "zeta", "b", "Alpha", "q9", "vv", "w"][i],
}
NAME_ROT = ["str", "int", "tuple", "word", "intrev"]
FORMS = ["list", "set", "tuple", "single"]


def _enum_cases(tier):
    ns = [1, 2, 3, 4] if tier == "quick" else [1, 2, 3, 4, 5]
    index = []
    for n in ns:
        for i in range(len(gen.all_dags(n))):
            index.append((n, i))

    def it(lo, hi):
        for gi in range(lo, hi):
            n, i = index[gi]
            edges = gen.all_dags(n)[i]
            kind = NAME_ROT[gi % len(NAME_ROT)]
            f = NAME_FUNS[kind]
            nodes = [f(k) for k in range(n)]
            if n <= 3:
                latsets = [list(c) for r in range(n + 1) for c in itertools.combinations(range(n), r)]
            else:
                m = gi % (2**n)
                latsets = [[], [k for k in range(n) if (m >> k) & 1]]
            yield {
                "name_kind": kind,
                "nodes": nodes,
                "edges": [[f(u), f(v)] for u, v in edges],
                "latent_sets": [[f(k) for k in ls] for ls in latsets],
                "rot": gi,
            }

    return len(index), it


def _observed_arg(Z, form, kind):
    Z = list(Z)
    if form == "single" and len(Z) == 1 and kind != "tuple":
        return Z[0]
    if form == "set":
        return set(Z)
    if form == "tuple":
        return tuple(Z)
    return Z


def _subsets(items):
    for r in range(len(items) + 1):
        yield from itertools.combinations(items, r)


def check_trails(case, out):
    nodes = case["nodes"]
    g = G(nodes, case["edges"])
    kind = case["name_kind"]
    nt_shape = any(len(g.nb[v]) >= 2 for v in nodes)
    out.cls(f"names_{kind}", f"n{len(nodes)}")
    out.evals = 0
    rot = case.get("rot", 0)
    used_nonempty = False
    for lat in case["latent_sets"]:
        spec = {"nodes": nodes, "edges": case["edges"], "latents": lat}
        dag = out.call("build", build_dag, spec)
        if dag is RAISED:
            return
        latset = set(lat)
        if lat:
            out.cls("with_latents")
        for start in nodes:
            others = [v for v in nodes if v != start]
            for Z in _subsets(others):
                rot += 1
                forms = [FORMS[rot % 4]]
                if len(Z) == 1 and kind != "tuple" and forms[0] != "single":
                    forms.append("single")
                want_all = g.reachable(start, Z) | {start}
                for form in forms:
                    for incl in (False, True):
                        if incl and not lat:
                            continue
                        want = want_all if incl else want_all - latset
                        obs = _observed_arg(Z, form, kind) if Z else ([] if rot % 2 else None)
                        tag = f"active_trail_nodes[{form if Z else 'empty'}]"
                        if form == "single" and len(Z) == 1:
                            out.cls("observed_single_node")
                            if Z[0] == 0:
                                out.cls("observed_single_node_zero")
                        res = out.call(tag, dag.active_trail_nodes, start, observed=obs, include_latents=incl)
                        out.evals += 1
                        if res is RAISED:
                            continue
                        got = res.get(start) if isinstance(res, dict) else None
                        if got is None or set(got) != want:
                            out.fail(f"{tag}:mismatch", f"start={start!r} Z={list(Z)!r} latents={lat!r} incl={incl} got={got!r} want={want!r} edges={case['edges']}")
                if Z:
                    used_nonempty = True
                if not lat:
                    # is_dconnected for every target (observed always a list here)
                    for y in others:
                        if y in Z:
                            continue
                        r = out.call("is_dconnected", dag.is_dconnected, start, y, list(Z))
                        out.evals += 1
                        if r is not RAISED and bool(r) != (y in want_all):
                            out.fail("is_dconnected:mismatch", f"start={start!r} end={y!r} Z={list(Z)!r} got={r} edges={case['edges']}")
    out.nontrivial = nt_shape and used_nonempty
    if g.vstructures():
        out.cls("has_vstructure")
    out.sample = {"nodes": nodes, "edges": case["edges"], "latent_sets": case["latent_sets"]}


def _assertion_triples(ind):
    for a in ind.get_assertions():
        yield set(a.event1), set(a.event2), set(a.event3)


def check_derived(case, out):
    """get_independencies, local_independencies, markov blanket, moral graph, ancestral graph, minimal_dseparator."""
    from pgmpy.models import BayesianNetwork

    nodes = case["nodes"]
    n = len(nodes)
    g = G(nodes, case["edges"])
    out.cls(f"names_{case['name_kind']}", f"n{n}")
    out.evals = 0
    out.nontrivial = any(len(g.nb[v]) >= 2 for v in nodes)
    strnames = case["name_kind"] in ("str", "word")  # Independencies documents string variable names
    for li, lat in enumerate(case["latent_sets"]):
        spec = {"nodes": nodes, "edges": case["edges"], "latents": lat}
        builders = [("DAG", build_dag)]
        if li == 0:
            builders.append(("BN", lambda s: _build_bn_struct(s)))
        for cname, builder in builders:
            dag = out.call("build", builder, spec)
            if dag is RAISED:
                return
            latset = set(lat)
            # ---- get_independencies (n <= 4: closure-free listing is cheap)
            if n <= 4 and cname == "DAG" and strnames:
                for incl in (False, True):
                    if incl and not lat:
                        continue
                    ind = out.call("get_independencies", dag.get_independencies, include_latents=incl)
                    out.evals += 1
                    if ind is RAISED:
                        continue
                    universe = [v for v in nodes if incl or v not in latset]
                    triples = list(_assertion_triples(ind))
                    for e1, e2, e3 in triples:
                        if not (e1 | e2 | e3) <= set(universe):
                            out.fail("get_independencies:foreign_variable", f"{e1} {e2} {e3} latents={lat}")
                            continue
                        for x in e1:
                            for y in e2:
                                if x == y or x in e3 or y in e3 or not g.dsep(x, y, e3):
                                    out.fail("get_independencies:unsound", f"({x} _|_ {y} | {e3}) listed but not a d-separation; edges={case['edges']} latents={lat}")
                    for x in universe:
                        rest = [v for v in universe if v != x]
                        for Z in _subsets(rest):
                            reach = g.reachable(x, Z)
                            for y in rest:
                                if y in Z or y in reach:
                                    continue
                                zs = set(Z)
                                if not any((x in e1 and y in e2 or x in e2 and y in e1) and e3 == zs for e1, e2, e3 in triples):
                                    out.fail("get_independencies:incomplete", f"({x} _|_ {y} | {zs}) holds but is not listed; edges={case['edges']} latents={lat}")
            if lat:
                continue
            # ---- local independencies / markov blanket
            for v in nodes:
                li_ = out.call("local_independencies", dag.local_independencies, v) if strnames else RAISED
                out.evals += 1
                if li_ is not RAISED:
                    nd = set(nodes) - {v} - g.descendants(v) - g.pa[v]
                    tr = list(_assertion_triples(li_))
                    if nd:
                        if len(tr) != 1 or tr[0] != ({v}, nd, set(g.pa[v])):
                            out.fail("local_independencies:mismatch", f"{v!r}: got {tr} want ({v} _|_ {nd} | {g.pa[v]})")
                    elif tr:
                        out.fail("local_independencies:mismatch", f"{v!r}: got {tr} want none")
                mb = out.call("get_markov_blanket", dag.get_markov_blanket, v)
                out.evals += 1
                if mb is not RAISED and (set(mb) != g.markov_blanket(v) or len(mb) != len(set(mb))):
                    out.fail("get_markov_blanket:mismatch", f"{v!r}: got {mb} want {g.markov_blanket(v)}")
            # ---- moral graph
            mg = out.call("moralize", dag.moralize)
            out.evals += 1
            if mg is not RAISED:
                got = {frozenset(e) for e in mg.edges()}
                if got != g.moral_edges() or set(mg.nodes()) != set(nodes):
                    out.fail("moralize:mismatch", f"got {sorted(map(sorted_repr, got))} want {sorted(map(sorted_repr, g.moral_edges()))} nodes={list(mg.nodes())}")
            # ---- ancestral graph
            for S in _subsets(nodes):
                if not S:
                    continue
                ag = out.call("get_ancestral_graph", dag.get_ancestral_graph, list(S))
                out.evals += 1
                if ag is RAISED:
                    continue
                A = g.ancestral_set(S)
                want_e = {(u, v) for u, v in g.edges if u in A and v in A}
                if set(ag.nodes()) != A or set(ag.edges()) != want_e:
                    out.fail("get_ancestral_graph:mismatch", f"S={S} got nodes={list(ag.nodes())} edges={list(ag.edges())}")
        # ---- minimal d-separator (with this latent set)
        dag = build_dag(spec)
        latset = set(lat)
        for x, y in itertools.permutations(nodes, 2):
            if x in latset or y in latset:
                continue
            if g.adjacent(x, y):
                out.expect_raise("minimal_dseparator[adjacent]", dag.minimal_dseparator, x, y, exc=ValueError)
                continue
            sep = out.call("minimal_dseparator", dag.minimal_dseparator, x, y)
            out.evals += 1
            if sep is RAISED:
                continue
            if sep is None:
                if not lat:
                    out.fail("minimal_dseparator:none_without_latents", f"{x!r},{y!r} edges={case['edges']}")
                continue
            sep = set(sep)
            if sep & latset:
                out.fail("minimal_dseparator:contains_latent", f"{x!r},{y!r} sep={sep} latents={lat} edges={case['edges']}")
            if x in sep or y in sep or not sep <= set(nodes):
                out.fail("minimal_dseparator:bad_members", f"{x!r},{y!r} sep={sep}")
                continue
            if not g.dsep(x, y, sep):
                out.fail("minimal_dseparator:does_not_separate", f"{x!r},{y!r} sep={sep} latents={lat} edges={case['edges']}")
                continue
            for u in sep:
                if g.dsep(x, y, sep - {u}):
                    out.fail("minimal_dseparator:not_minimal", f"{x!r},{y!r} sep={sep} removable={u!r} latents={lat} edges={case['edges']}")
                    break
    out.sample = {"nodes": nodes, "edges": case["edges"], "latent_sets": case["latent_sets"]}


def sorted_repr(fs):
    return sorted(map(repr, fs))


def _build_bn_struct(spec):
    from ..spec import build_bn

    return build_bn(spec, with_cpds=False)


@st.composite
def random_case(draw):
    spec = draw(gen.dag_spec(min_nodes=6, max_nodes=9, max_parents=4, latents=True))
    nodes = spec["nodes"]
    starts = list(draw(st.permutations(nodes)))[:2]
    qs = []
    for s in starts:
        others = [v for v in nodes if v != s]
        Z = [v for v in others if draw(st.integers(0, 2)) == 0]
        qs.append([s, Z, draw(st.sampled_from(FORMS))])
    spec["questions"] = qs
    return spec


def check_random(case, out):
    nodes = case["nodes"]
    g = G(nodes, case["edges"])
    lat = case["latents"]
    dag = out.call("build", build_dag, case)
    if dag is RAISED:
        return
    out.cls(f"names_{case['name_kind']}", f"shape_{case['shape']}")
    out.evals = 0
    for start, Z, form in case["questions"]:
        want_all = g.reachable(start, Z) | {start}
        for incl in (False, True):
            want = want_all if incl else want_all - set(lat)
            obs = _observed_arg(Z, form, case["name_kind"]) if Z else None
            res = out.call("active_trail_nodes", dag.active_trail_nodes, start, observed=obs, include_latents=incl)
            out.evals += 1
            if res is not RAISED and set(res[start]) != want:
                out.fail("active_trail_nodes:mismatch", f"start={start!r} Z={Z!r} incl={incl} got={res[start]!r} want={want!r}")
        if any(g.pa[v] and len(g.pa[v]) >= 2 and (v in Z or g.descendants(v) & set(Z)) for v in nodes):
            out.nontrivial = True
            out.cls("observed_collider_descendant")
    # list-valued `variables`
    res = out.call("active_trail_nodes[list]", dag.active_trail_nodes, [q[0] for q in case["questions"]], observed=list(case["questions"][0][1]), include_latents=True)
    out.evals += 1
    if res is not RAISED:
        Z = case["questions"][0][1]
        for s in [q[0] for q in case["questions"]]:
            if s in Z:
                continue
            want = g.reachable(s, Z) | {s}
            if set(res[s]) != want:
                out.fail("active_trail_nodes[list]:mismatch", f"start={s!r} Z={Z!r} got={res[s]!r} want={want!r}")


@st.composite
def nb_case(draw):
    k = draw(st.integers(1, 5))
    names = list(draw(st.permutations(gen.WORD_NAMES + gen.STR_NAMES[:4])))[: k + 1]
    dep, feats = names[0], names[1:]
    start = draw(st.sampled_from(names))
    Z = [v for v in names if v != start and draw(st.booleans())]
    return {"dependent": dep, "features": feats, "start": start, "observed": Z}


def check_naive_bayes(case, out):
    from pgmpy.models import NaiveBayes

    dep, feats = case["dependent"], case["features"]
    g = G([dep] + feats, [(dep, f) for f in feats])
    nb = out.call("build", NaiveBayes, feature_vars=feats, dependent_var=dep)
    if nb is RAISED:
        return
    start, Z = case["start"], case["observed"]
    want = g.reachable(start, Z) | {start}
    out.nontrivial = len(feats) >= 2 and bool(Z)
    if dep in Z:
        out.cls("dependent_observed")
    res = out.call("nb.active_trail_nodes", nb.active_trail_nodes, start, observed=list(Z) or None)
    if res is RAISED:
        return
    got = res[start] if isinstance(res, dict) else res
    if set(got) != want:
        out.fail("nb.active_trail_nodes:mismatch", f"dep={dep!r} feats={feats!r} start={start!r} Z={Z!r} got={got!r} want={want!r}")
    # local independencies of a feature: independent of its non-descendants (the other features) given its parent
    for f in feats[:3]:
        others = set(feats) - {f}
        li = out.call("nb.local_independencies", nb.local_independencies, f)
        out.evals += 1
        if li is RAISED:
            continue
        stmts = {(frozenset(a.event1), frozenset(a.event2), frozenset(a.event3)) for a in li.get_assertions()}
        if not others:
            if any(e2 for _, e2, _ in stmts):
                out.fail("nb.local_independencies:statement_for_single_feature", f"dep={dep!r} feats={feats!r} var={f!r} got={sorted(map(str, li.get_assertions()))}")
            continue
        want_stmt = (frozenset([f]), frozenset(others), frozenset([dep]))
        if stmts != {want_stmt}:
            out.fail("nb.local_independencies:mismatch", f"dep={dep!r} feats={feats!r} var={f!r} got={sorted(map(str, li.get_assertions()))} want {f} _|_ {sorted(others)} | {dep}")


THOROUGH_SCALE = 8  # thorough-tier example counts are n["thorough"] x this (one thorough run then takes roughly 5-10 minutes on 16 cores)
SUBCHECKS = [
    Sub("exhaustive_trails", check_trails, enumerate=_enum_cases, shards={"quick": 8, "thorough": 16},
        doc="active_trail_nodes / is_dconnected vs simple-trail enumeration on every small DAG, start, observed set"),
    Sub("exhaustive_derived", check_derived, enumerate=_enum_cases, shards={"quick": 8, "thorough": 16},
        doc="get_independencies (sound+complete), local_independencies, Markov blanket, moral graph, ancestral graph, minimal_dseparator on every small DAG (DAG and BayesianNetwork classes)"),
    Sub("random_trails", check_random, strategy=lambda tier: random_case(), n={"quick": 150, "thorough": 1500},
        shards={"quick": 4, "thorough": 8}, doc="active_trail_nodes on random 6-9 node DAGs with latents"),
    Sub("naive_bayes", check_naive_bayes, strategy=lambda tier: nb_case(), n={"quick": 100, "thorough": 500},
        shards={"quick": 1, "thorough": 2}, doc="NaiveBayes.active_trail_nodes and local_independencies vs the definition on the star graph"),
]
PREDICATES = {}
