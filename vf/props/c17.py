"""C17 — dynamic-network inference equals inference on the unrolled network."""
import itertools

from hypothesis import strategies as st

from .. import gen
from ..core import RAISED, Sub
from ..oracle.joint import Joint

RULE = (
    "cases = two-slice templates with 1-3 variables per slice (cards 2-3, string names), a random intra-slice DAG "
    "(variables without any intra-slice edge included), random inter-slice edges (one or several interface nodes; "
    "edges joining different variables included), CPDs for slice 0 and for the transition (parents declared in any "
    "order) x query variables at times 0..T (T<=5 for one variable, <=4 for two, <=2 for three; within one slice or anywhere) x evidence classes {none, non-interface only, on interface nodes, "
    "in a sparse subset of the slices with gaps, in several slices, later than the query}. Oracle = own unrolling into a flat network with T+1 slices and its "
    "brute-force joint: query()/backward_inference() must equal P(X_t | all evidence), forward_inference() "
    "P(X_t | evidence up to t). Outside the three listed known findings (a queried slice >= 1 followed by more work; "
    "interface evidence before the last slice in smoothing mode) every marginal beyond slice 0 is held to 1e-8. "
    "get_constant_bn and initialize_initial_state are compared CPD by CPD (named assignments) with the template. "
    "non-trivial = >= 2 variables per slice, T >= 2 and evidence in >= 1 slice; distinct = sha1 of the case."
)
ASSUMPTIONS = [
    "the slice-0 and one-and-half-slice moral graphs (interface nodes completed) are connected; for the others the "
    "engine may reject the template with ValueError 'No sepset found' as BeliefPropagation does for any disconnected "
    "network (class disconnected_slice_graph_rejected); if it accepts them the answers are compared as usual",
    "P(evidence) > 0 (projected from an assignment in the support of the unrolled joint)",
    "default integer state names (the DBN engine relabels factors without state names)",
    "forward_inference is read as filtering (evidence up to the query time), query/backward_inference as smoothing",
]

NAMES = ["A", "B", "C"]


@st.composite
def template(draw, min_vars=1):
    n = draw(st.sampled_from([x for x in (2, 3, 1, 2) if x >= min_vars]))
    names = NAMES[:n]
    card = {v: draw(st.sampled_from([2, 2, 2, 3])) for v in names}
    topo = list(draw(st.permutations(names)))
    intra = [(topo[i], topo[j]) for j in range(n) for i in range(j) if draw(st.integers(0, 2)) > 0]
    inter = [(u, v) for u in names for v in names if draw(st.integers(0, 3)) == 0]
    if not inter:
        inter = [(names[draw(st.integers(0, n - 1))], names[draw(st.integers(0, n - 1))])]
    # every variable needs both of its slice nodes in the graph: give a variable without intra-slice edge either an
    # intra-slice edge or a persistence edge v_t -> v_t+1
    keep_bare = draw(st.integers(0, 2)) == 0
    for i, v in enumerate(topo):
        if not any(v in e for e in intra):
            if n >= 2 and not keep_bare:
                intra.append((topo[i - 1], v) if i > 0 else (v, topo[1]))
            elif (v, v) not in inter:
                inter.append((v, v))
    par0 = {v: [(u, 0) for u, w in intra if w == v] for v in names}
    par1 = {v: [(u, 1) for u, w in intra if w == v] + [(u, 0) for u, w in inter if w == v] for v in names}

    def table(k, parents):
        ncol = 1
        for p in parents:
            ncol *= card[p[0]]
        cols = [draw(gen.column(k, ("dense", "dense", "dense", "zeros"))) for _ in range(ncol)]
        return [[cols[j][i] for j in range(ncol)] for i in range(k)]

    cpds = []
    for v in names:
        p0 = list(draw(st.permutations(par0[v])))
        cpds.append({"var": [v, 0], "parents": [list(p) for p in p0], "table": table(card[v], p0)})
        p1 = list(draw(st.permutations(par1[v])))
        cpds.append({"var": [v, 1], "parents": [list(p) for p in p1], "table": table(card[v], p1)})
    return {"names": names, "card": [card[v] for v in names], "intra": [list(e) for e in intra], "inter": [list(e) for e in inter], "cpds": cpds}


def unroll(t, T):
    """flat Bayesian-network spec with nodes (name, time) for time 0..T"""
    names = t["names"]
    card = dict(zip(names, t["card"]))
    nodes = [(v, s) for s in range(T + 1) for v in names]
    cp = {tuple(c["var"]): c for c in t["cpds"]}
    edges, cpds = [], []
    for s in range(T + 1):
        for v in names:
            src = cp[(v, 0)] if s == 0 else cp[(v, 1)]
            shift = 0 if s == 0 else s - 1
            ps = [(p[0], p[1] + shift) for p in src["parents"]]
            for p in ps:
                edges.append([p, (v, s)])
            cpds.append({"var": (v, s), "parents": ps, "table": src["table"]})
    return {"nodes": nodes, "edges": edges, "card": [card[v] for (v, s) in nodes], "states": [list(range(card[v])) for (v, s) in nodes], "cpds": cpds}


@st.composite
def dbn_case(draw, min_vars=1):
    t = draw(template(min_vars))
    names = t["names"]
    n = len(names)
    T = draw(st.sampled_from({1: [2, 3, 1, 4, 5, 0], 2: [2, 1, 3, 4, 2, 0], 3: [2, 1, 1, 2, 0]}[n]))
    flat = unroll(t, T)
    J = Joint.from_bn(flat)
    support = sorted(J.support_assignments())
    a = support[draw(st.integers(0, len(support) - 1))]
    nodes = flat["nodes"]
    iface = {u for u, v in t["inter"]}
    # query: within one slice (slice 0, the last slice or any single slice: the regions in which the engine is held to
    # exactness beyond slice 0) or anywhere
    qmode = draw(st.sampled_from(["slice0", "last", "slice0", "any", "one_slice"]))
    qslice = {"slice0": 0, "last": T, "one_slice": draw(st.integers(0, T)), "any": None}[qmode]
    pool = [v for v in nodes if qslice is None or v[1] == qslice]
    order = list(draw(st.permutations(pool)))
    nq = draw(st.integers(1, min(3, len(order))))
    query = order[:nq]
    rest = [v for v in draw(st.permutations(nodes)) if v not in query]
    mode = draw(st.sampled_from(["sparse", "late_only", "some", "many", "sparse", "none"]))
    if mode == "none":
        ev_vars = []
    elif mode == "late_only":
        # evidence in the last slice (or the last two) only: with a query in slice 0 the backward sweep has to carry it
        # across slices that have no evidence of their own
        late = [T] if T == 0 or draw(st.booleans()) else [T - 1, T]
        ev_vars = []
        for sl in late:
            cand = [v for v in rest if v[1] == sl]
            ev_vars.extend(cand[: draw(st.integers(1, 2))])
    elif mode == "sparse":
        # evidence in a random subset of the slices (gaps included), optionally on non-interface variables only
        leaf_only = draw(st.booleans())
        slices = [s for s in range(T + 1) if draw(st.booleans())] or [draw(st.integers(0, T))]
        ev_vars = []
        for sl in slices:
            cand = [v for v in rest if v[1] == sl and not (leaf_only and v[0] in iface)]
            ev_vars.extend(cand[: draw(st.integers(1, 2))])
    else:
        ne = draw(st.integers(1, 2)) if mode == "some" else min(len(rest), draw(st.integers(2, 4)))
        ev_vars = rest[:ne]
    evidence = [[list(v), a[J.idx[v]]] for v in ev_vars]
    # the same evidence variables in other states (another assignment of positive probability): asked afterwards on the
    # same engine object, which must not remember anything of the first question
    a2 = support[draw(st.integers(0, len(support) - 1))]
    evidence2 = [[list(v), a2[J.idx[v]]] for v in ev_vars]
    return {"template": t, "T": T, "query": [list(q) for q in query], "evidence": evidence, "evidence2": evidence2}


def build_dbn(t, with_cpds=True, only_slice=None):
    from pgmpy.factors.discrete import TabularCPD
    from pgmpy.models import DynamicBayesianNetwork as DBN

    card = dict(zip(t["names"], t["card"]))
    m = DBN()
    for v in t["names"]:
        m.add_node(v)
    for u, v in t["intra"]:
        m.add_edge((u, 0), (v, 0))
    for u, v in t["inter"]:
        m.add_edge((u, 0), (v, 1))
    if with_cpds:
        cs = []
        for c in t["cpds"]:
            if only_slice is not None and c["var"][1] != only_slice:
                continue
            ps = [tuple(p) for p in c["parents"]]
            kw = dict(evidence=ps, evidence_card=[card[p[0]] for p in ps]) if ps else {}
            cs.append(TabularCPD(tuple(c["var"]), card[c["var"][0]], c["table"], **kw))
        m.add_cpds(*cs)
    return m


def _named(cpd):
    import numpy as np

    vars_ = [tuple(v) if not isinstance(v, str) else v for v in cpd.variables]
    vals = np.asarray(cpd.values, dtype=float)
    out = {}
    for idxs in itertools.product(*[range(int(c)) for c in cpd.cardinality]):
        out[(idxs[0], frozenset((_key(v), j) for v, j in list(zip(vars_, idxs))[1:]))] = float(vals[idxs])
    return out


def _key(v):
    try:
        return (v[0], v[1])
    except Exception:  # noqa: BLE001
        return v


def _ref_named(c, card):
    out = {}
    ps = [tuple(p) for p in c["parents"]]
    cfgs = list(itertools.product(*[range(card[p[0]]) for p in ps]))
    for j, cfg in enumerate(cfgs):
        for i in range(len(c["table"])):
            out[(i, frozenset(zip(ps, cfg)))] = c["table"][i][j]
    return out


def _connected(nodes, edges):
    nodes = list(nodes)
    if not nodes:
        return True
    adj = {v: set() for v in nodes}
    for u, v in edges:
        adj[u].add(v)
        adj[v].add(u)
    seen, stack = {nodes[0]}, [nodes[0]]
    while stack:
        for y in adj[stack.pop()]:
            if y not in seen:
                seen.add(y)
                stack.append(y)
    return len(seen) == len(nodes)


def _disconnected_slice_graph(t):
    """the slice-0 or the one-and-half-slice moral graph (interfaces completed) is not connected"""
    names = t["names"]
    iface = sorted({u for u, v in t["inter"]})
    par0 = {v: [u for u, w in t["intra"] if w == v] for v in names}
    e0 = [((u, 0), (v, 0)) for u, v in t["intra"]]
    e0 += [((a, 0), (b, 0)) for v in names for a in par0[v] for b in par0[v] if a < b]
    e0 += [((a, 0), (b, 0)) for a in iface for b in iface if a < b]
    n0 = [(v, 0) for v in names]
    par1 = {v: [(u, 1) for u in par0[v]] + [(u, 0) for u, w in t["inter"] if w == v] for v in names}
    e1 = [(p, (v, 1)) for v in names for p in par1[v]]
    e1 += [(a, b) for v in names for a in par1[v] for b in par1[v] if a < b]
    e1 += [((a, 0), (b, 0)) for a in iface for b in iface if a < b] + [((a, 1), (b, 1)) for a in iface for b in iface if a < b]
    n1 = [(v, 0) for v in iface] + [(v, 1) for v in names]
    return not _connected(n0, e0) or not _connected(n1, e1)


def _interface_nodes(t):
    return sorted({u for u, v in t["inter"]})


def check_inference(case, out):
    from pgmpy.inference import DBNInference

    t, T = case["template"], case["T"]
    names = t["names"]
    flat = unroll(t, T)
    J = Joint.from_bn(flat)
    query = [tuple(q) for q in case["query"]]
    evidence = {tuple(v): s for v, s in case["evidence"]}
    iface = set(_interface_nodes(t))
    ev_iface = any(v[0] in iface for v in evidence)
    ev_slices = {v[1] for v in evidence}
    has_intra = {v: any(v in e for e in t["intra"]) for v in names}
    out.nontrivial = len(names) >= 2 and T >= 2 and bool(evidence)
    out.cls(f"vars{len(names)}", f"T{T}", "evidence_none" if not evidence else ("evidence_on_interface" if ev_iface else "evidence_non_interface"))
    if len(ev_slices) >= 2:
        out.cls("evidence_in_several_slices")
    if evidence and max(ev_slices) > max(q[1] for q in query):
        out.cls("smoothing")
    no_intra = not all(has_intra.values())
    if no_intra:
        out.cls("variable_without_intra_slice_edge")
    model = out.call("build", build_dbn, t)
    if model is RAISED:
        return
    r = out.call("initialize_initial_state", model.initialize_initial_state)
    if r is RAISED:
        return
    tag_sfx = ""
    if {u for u, v in t["inter"]} != {v for u, v in t["inter"]}:
        out.cls("inter_edge_sources_differ_from_targets")
    if _disconnected_slice_graph(t):
        # junction trees exist for connected graphs only (BeliefPropagation rejects a disconnected network with
        # ValueError, see C14): the same clean rejection is accepted here, anything else is compared as usual
        out.cls("disconnected_slice_graph")
        try:
            eng = DBNInference(model)
        except ValueError as e:
            if "sepset" in str(e):
                out.cls("disconnected_slice_graph_rejected")
                return
            out.fail("DBNInference[disconnected_slice_graph]:raised ValueError", str(e)[:200])
            return
        except Exception as e:  # noqa: BLE001
            out.fail(f"DBNInference[disconnected_slice_graph]:raised {type(e).__name__}", str(e)[:200])
            return
    else:
        eng = out.call("DBNInference", DBNInference, model)
        if eng is RAISED:
            return
    out.evals = 0
    if T >= 1:
        # outside the three known findings the engine has to be exact beyond slice 0
        if not _queried_slice_before_later_query(case):
            out.cls("beyond_slice0_filtering_held_to_exactness")
        if not (_queried_slice_inside_smoothing_range(case) or _interface_evidence_before_last_slice(case)):
            out.cls("beyond_slice0_smoothing_held_to_exactness")
    cls_ev = "[evidence_on_interface]" if ev_iface else ("[evidence]" if evidence else "")
    for api in ("query", "backward_inference", "forward_inference"):
        fn = getattr(eng, api)
        res = out.call(f"{api}{tag_sfx}{cls_ev}", fn, list(query), dict(evidence) or None)
        out.evals += 1
        if res is RAISED:
            continue
        if not isinstance(res, dict) or {tuple(k) if not isinstance(k, tuple) else k for k in res} != set(query):
            out.fail(f"{api}:keys", f"{list(res) if isinstance(res, dict) else type(res)} vs {query}")
            continue
        for q in query:
            ev = evidence if api != "forward_inference" else {v: s for v, s in evidence.items() if v[1] <= q[1]}
            if api == "forward_inference" and any(v == q for v in ev):
                continue
            if q in ev:
                continue
            want = J.marginal([q], ev)
            f = res[q]
            vals = [float(x) for x in f.values.ravel()]
            wv = [want[frozenset([(q, s)])] for s in range(len(vals))] if len(vals) == len(want) else None
            if wv is None:
                out.fail(f"{api}:cardinality", f"{q}: {len(vals)} values")
                break
            z = sum(vals)
            vals = [x / z for x in vals] if z > 0 else vals
            if any(abs(a - b) > 1e-8 for a, b in zip(vals, wv)):
                out.fail(f"{api}:marginal_mismatch{tag_sfx}{cls_ev}", f"P({q} | {ev}) got {vals} want {wv}; intra={t['intra']} inter={t['inter']} T={T}")
                break
    # second question on the same engine: same evidence variables, other states (filtering mode, exact region only)
    ev2 = {tuple(v): s_ for v, s_ in case.get("evidence2", [])}
    if ev2 and ev2 != evidence and not _queried_slice_before_later_query(case) and J.prob({v: s_ for v, s_ in ev2.items()}) > 0:
        out.cls("second_question_other_evidence_states")
        res = out.call("forward_inference[second_question]", eng.forward_inference, list(query), dict(ev2))
        out.evals += 1
        if res is not RAISED and isinstance(res, dict):
            for q in query:
                ev = {v: s_ for v, s_ in ev2.items() if v[1] <= q[1]}
                if q in ev or q not in res:
                    continue
                want = J.marginal([q], ev)
                vals = [float(x) for x in res[q].values.ravel()]
                z = sum(vals)
                vals = [x / z for x in vals] if z > 0 else vals
                wv = [want[frozenset([(q, s_)])] for s_ in range(len(vals))] if len(vals) == len(want) else None
                if wv is None or any(abs(a_ - b_) > 1e-8 for a_, b_ in zip(vals, wv)):
                    out.fail("forward_inference[second_question]:marginal_mismatch", f"P({q} | {ev}) got {vals} want {wv} after a first question with evidence {evidence}; intra={t['intra']} inter={t['inter']} T={T}")
                    break
    out.sample = {"names": names, "intra": t["intra"], "inter": t["inter"], "T": T, "query": case["query"], "evidence": case["evidence"]}


def check_structure(case, out):
    """get_constant_bn and initialize_initial_state keep the template's conditionals"""
    t = case["template"]
    names = t["names"]
    card = dict(zip(names, t["card"]))
    want = {tuple(c["var"]): _ref_named(c, card) for c in t["cpds"]}
    out.nontrivial = len(names) >= 2
    out.evals = 0
    # --- all CPDs given: completion must not change anything; constant BN exposes them
    model = out.call("build", build_dbn, t)
    if model is RAISED:
        return
    if out.call("initialize_initial_state", model.initialize_initial_state) is not RAISED:
        out.evals += 1
        for v, w in want.items():
            c = model.get_cpds(v)
            if c is None:
                out.fail("initialize_initial_state:cpd_missing", str(v))
                continue
            g = _named(c)
            if set(g) != set(w) or any(abs(g[k] - w[k]) > 1e-12 for k in w):
                out.fail("initialize_initial_state:changed_given_cpd", f"{v}")
        cb = out.call("get_constant_bn", model.get_constant_bn)
        out.evals += 1
        if cb is not RAISED:
            for c in cb.get_cpds():
                name, ts = str(c.variable).rsplit("_", 1)
                key = (name, int(ts))
                w = want.get(key)
                if w is None:
                    out.fail("get_constant_bn:unknown_variable", str(c.variable))
                    continue
                g = {}
                import numpy as np

                vals = np.asarray(c.values, dtype=float)
                vs = []
                for x in c.variables:
                    nm, tt = str(x).rsplit("_", 1)
                    vs.append((nm, int(tt)))
                for idxs in itertools.product(*[range(int(k)) for k in c.cardinality]):
                    g[(idxs[0], frozenset(zip(vs[1:], idxs[1:])))] = float(vals[idxs])
                if set(g) != set(w) or any(abs(g[k] - w[k]) > 1e-12 for k in w):
                    out.fail("get_constant_bn:conditional_changed", f"{key}")
    # --- completion: only slice-0 CPDs of nodes whose slice-1 CPD has the same structure, etc.
    #     give CPDs for one slice only where the other slice's CPD is structurally identical (no inter-slice parents)
    same = [v for v in names if not any(w == v for _, w in t["inter"])]
    if same:
        out.cls("completion_exercised")
        t2 = dict(t)
        keep = []
        for c in t["cpds"]:
            if c["var"][0] in same and c["var"][1] == 1:
                continue  # to be completed from slice 0
            keep.append(c)
        t2["cpds"] = keep
        m2 = out.call("build", build_dbn, t2)
        if m2 is not RAISED:
            r = out.call("initialize_initial_state[completion]", m2.initialize_initial_state)
            out.evals += 1
            if r is not RAISED:
                src = {tuple(c["var"]): c for c in t["cpds"]}
                for v in same:
                    c = m2.get_cpds((v, 1))
                    if c is None:
                        out.fail("initialize_initial_state[completion]:cpd_missing", f"({v}, 1)")
                        continue
                    s0 = src[(v, 0)]
                    w = _ref_named({"parents": [[p[0], 1] for p in s0["parents"]], "table": s0["table"]}, card)
                    g = _named(c)
                    lab = "initialize_initial_state[completion]:copied_cpd_differs"
                    if len(s0["parents"]) >= 2 and len({card[p[0]] for p in s0["parents"]}) > 1:
                        lab += "[parents_of_different_cardinality]"
                    if set(g) != set(w) or any(abs(g[k] - w[k]) > 1e-12 for k in w):
                        out.fail(lab, f"({v},1): template parents {s0['parents']} cards {[card[p[0]] for p in s0['parents']]}; completed scope {c.variables}")
    out.sample = {"names": names, "intra": t["intra"], "inter": t["inter"]}


THOROUGH_SCALE = 7  # thorough-tier example counts are n["thorough"] x this (one thorough run then takes roughly 5-10 minutes on 16 cores)
SUBCHECKS = [
    Sub("inference", check_inference, strategy=lambda tier: dbn_case(), n={"quick": 60, "thorough": 1000},
        shards={"quick": 10, "thorough": 16}, doc="DBNInference.query / backward_inference (smoothing) and forward_inference (filtering) vs brute force on the unrolled network"),
    Sub("structure", check_structure, strategy=lambda tier: dbn_case(), n={"quick": 100, "thorough": 1500},
        shards={"quick": 3, "thorough": 8}, doc="get_constant_bn exposes the template CPDs; initialize_initial_state leaves given CPDs alone and copies missing ones unchanged"),
]
def _times(case):
    q = sorted({x[1] for x in case["query"]})
    tr = max(q + [v[1] for v, _ in case["evidence"]])
    return q, tr


def _queried_slice_before_later_query(case):
    """forward pass: a queried slice t >= 1 is followed by another queried slice"""
    q, tr = _times(case)
    return any(1 <= x < y for x in q for y in q)


def _queried_slice_inside_smoothing_range(case):
    """backward pass: a queried slice t >= 1 with work left after it (a later slice in the forward sweep or an
    earlier queried slice in the backward sweep)"""
    q, tr = _times(case)
    return any(1 <= x < tr for x in q) or any(x >= 1 and y < x for x in q for y in q)


def _interface_evidence_before_last_slice(case):
    t = case["template"]
    q, tr = _times(case)
    iface = {u for u, v in t["inter"]}
    return any(v[0] in iface and v[1] < tr for v, _ in case["evidence"])


PREDICATES = {"queried_slice_before_later_query": _queried_slice_before_later_query,
              "queried_slice_inside_smoothing_range": _queried_slice_inside_smoothing_range,
              "interface_evidence_before_last_slice": _interface_evidence_before_last_slice}
