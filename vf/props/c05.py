"""C05 — CPD tables keep their column meaning; validated models are normalised."""
import itertools

from hypothesis import strategies as st

from .. import gen
from ..core import RAISED, Sub
from ..oracle.joint import Joint
from ..spec import build_bn, build_cpd

RULE = (
    "cases = child + 0-4 parents with (mostly pairwise different) cardinalities 1-4, all state-name kinds, an "
    "asymmetric column-stochastic table, and one transformation (construct / reorder_parents in and out of "
    "place / marginalize / reduce / normalize / copy / to_factor / get_values); oracle = the 2-D input read as "
    "'column j <-> j-th row-major configuration of the declared evidence list' held as a dict keyed by named "
    "assignment. Validation: valid network specs must pass check_model, specs with exactly one defect (missing "
    "CPD, wrong parent set, wrong evidence cardinality, mismatching state names, a column sum off by delta on "
    "either side of the documented 0.01 tolerance) must be rejected/accepted accordingly. non-trivial = >=2 "
    "parents with different cardinalities and non-default state names (CPD ops) / a defect variant (validation)."
)
ASSUMPTIONS = [
    "marginalising a parent means: sum the table over that parent, then renormalise every column (documented TabularCPD behaviour)",
    "tolerance probes stay away from the boundary: column-sum error <= 0.009 must be accepted, >= 0.0111 rejected",
    "float comparison of conditionals: 1e-12 absolute after pure re-indexing, 1e-9 after arithmetic",
]

OPS = ["construct", "reorder_inplace", "reorder_inplace", "reorder_copy", "marginalize", "reduce", "normalize", "copy", "to_factor", "to_csv"]


@st.composite
def cpd_case(draw):
    npar = draw(st.sampled_from([0, 1, 2, 2, 3, 3, 4]))
    kind, names = draw(gen.node_names(npar + 1))
    child, parents = names[0], names[1:]
    cards = list(draw(st.permutations([1, 2, 3, 4, 2, 3])))[: npar + 1]
    states = []
    for c in cards:
        _, s = draw(gen.states_for(c))
        states.append(s)
    ncol = 1
    for c in cards[1:]:
        ncol *= c
    k = cards[0]
    cols = [draw(gen.column(k, ("dense", "dense", "dense", "zeros", "onehot"))) for _ in range(ncol)]
    table = [[cols[j][i] for j in range(ncol)] for i in range(k)]
    op = draw(st.sampled_from(OPS if npar else ["construct", "normalize", "copy", "to_factor", "to_csv"]))
    args = {}
    if op.startswith("reorder"):
        args["order"] = list(draw(st.permutations(parents)))
    if op == "marginalize":
        sub = [p for p in parents if draw(st.booleans())] or parents[:1]
        args["vars"] = sub
    if op == "reduce":
        sub = [p for p in parents if draw(st.booleans())] or parents[:1]
        args["assign"] = [[p, states[names.index(p)][draw(st.integers(0, cards[names.index(p)] - 1))]] for p in sub]
    if op == "normalize":
        args["scale"] = [draw(st.sampled_from([0.5, 1.0, 2.0, 3.5, 10.0])) for _ in range(ncol)]
    return {"name_kind": kind, "child": child, "parents": parents, "card": cards, "states": states, "table": table,
            "op": op, "args": args, "inplace": draw(st.booleans()), "explicit_states": draw(st.integers(0, 4)) > 0 or any(s != list(range(len(s))) for s in states)}


def ref_table(case, table=None, parents=None):
    """{(child_state, frozenset((parent, state)...)): p} straight from the 2-D input"""
    names = [case["child"]] + case["parents"]
    st_ = {v: s for v, s in zip(names, case["states"])}
    parents = case["parents"] if parents is None else parents
    table = case["table"] if table is None else table
    out = {}
    cfgs = list(itertools.product(*[range(len(st_[p])) for p in parents]))
    for j, cfg in enumerate(cfgs):
        key = frozenset((p, st_[p][s]) for p, s in zip(parents, cfg))
        for i, cs in enumerate(st_[case["child"]]):
            out[(cs, key)] = table[i][j]
    return out


def cpd_named(cpd):
    import numpy as np

    vars_ = list(cpd.variables)
    vals = np.asarray(cpd.values, dtype=float)
    names = [cpd.state_names[v] for v in vars_]
    out = {}
    for idxs in itertools.product(*[range(len(s)) for s in names]):
        out[(names[0][idxs[0]], frozenset((v, names[i][j]) for i, (v, j) in enumerate(zip(vars_, idxs)) if i > 0))] = float(vals[idxs])
    return out


def cmp_named(out, tag, got, want, tol=1e-12):
    if set(got) != set(want):
        out.fail(f"{tag}:assignments", f"named assignments differ: got {len(got)} want {len(want)}; e.g. {sorted(map(str, list(set(got) ^ set(want))[:2]))}")
        return False
    for k, w in want.items():
        if abs(got[k] - w) > tol + tol * abs(w):
            out.fail(f"{tag}:value", f"P({k[0]!r} | {sorted(map(str, k[1]))}) got {got[k]!r} want {w!r}")
            return False
    return True


def table2d(ref, case, parents):
    names = [case["child"]] + case["parents"]
    st_ = {v: s for v, s in zip(names, case["states"])}
    cfgs = list(itertools.product(*[range(len(st_[p])) for p in parents]))
    return [[ref[(cs, frozenset((p, st_[p][s]) for p, s in zip(parents, cfg)))] for cfg in cfgs] for cs in st_[case["child"]]]


def check_states(out, tag, cpd, case, scope):
    names = [case["child"]] + case["parents"]
    st_ = {v: s for v, s in zip(names, case["states"])}
    for v in scope:
        if list(cpd.state_names.get(v, [])) != list(st_[v]):
            out.fail(f"{tag}:state_names_lost", f"{v!r}: {cpd.state_names.get(v)} vs {st_[v]}")
            return False
    return True


def _spec_of(case):
    return {"nodes": [case["child"]] + case["parents"], "card": case["card"], "states": case["states"], "explicit_states": case["explicit_states"]}


def check_cpd(case, out):
    import numpy as np

    op, args, inplace = case["op"], case["args"], case["inplace"]
    spec = _spec_of(case)
    child, parents = case["child"], case["parents"]
    table = case["table"]
    if op == "normalize":
        table = [[x * s for x, s in zip(row, args["scale"])] for row in table]
    cpd = out.call("construct", build_cpd, spec, {"var": child, "parents": parents, "table": table})
    if cpd is RAISED:
        return
    want = ref_table(case)
    distinct_cards = len(parents) >= 2 and len(set(case["card"][1:])) > 1
    out.nontrivial = distinct_cards and any(s != list(range(len(s))) for s in case["states"])
    out.cls(f"op_{op}", f"npar{len(parents)}", f"names_{case['name_kind']}")
    if op != "normalize":
        cmp_named(out, "construct", cpd_named(cpd), want)
        if list(cpd.variables) != [child] + parents:
            out.fail("construct:variable_order", f"{cpd.variables}")
        gv = np.asarray(cpd.get_values(), dtype=float)
        if gv.shape != (case["card"][0], len(table[0])) or not np.allclose(gv, np.array(table), rtol=0, atol=0):
            out.fail("get_values:differs_from_input", f"{gv.tolist()} vs {table}")
        check_states(out, "construct", cpd, case, [child] + parents)
    before = (cpd_named(cpd), list(cpd.variables), {k: list(v) for k, v in cpd.state_names.items()})

    def untouched(tag):
        try:
            now = (cpd_named(cpd), list(cpd.variables), {k: list(v) for k, v in cpd.state_names.items()})
        except Exception as e:  # noqa: BLE001 - the CPD was left in a state that cannot even be read back
            out.fail(f"{tag}:original_modified", f"the CPD can no longer be read after the call: {type(e).__name__}: {e}")
            return
        if now != before:
            out.fail(f"{tag}:original_modified", "out-of-place call changed the CPD")

    if op == "reorder_inplace":
        order = args["order"]
        r = out.call("reorder_parents[inplace]", cpd.reorder_parents, list(order), inplace=True)
        if r is RAISED:
            return
        if list(cpd.variables) != [child] + order:
            out.fail("reorder_parents[inplace]:variable_order", f"{cpd.variables} vs {[child] + order}")
            return
        if not check_states(out, "reorder_parents[inplace]", cpd, case, [child] + order):
            return
        cmp_named(out, "reorder_parents[inplace]", cpd_named(cpd), want)
        w2 = np.array(table2d(want, case, order))
        for nm, arr in (("returned", r), ("get_values", cpd.get_values())):
            a = np.asarray(arr, dtype=float)
            if a.shape != w2.shape or not np.allclose(a, w2, rtol=0, atol=1e-15):
                out.fail(f"reorder_parents[inplace]:{nm}_table", f"{a.tolist()} vs {w2.tolist()}")
    elif op == "reorder_copy":
        order = args["order"]
        r = out.call("reorder_parents[copy]", cpd.reorder_parents, list(order), inplace=False)
        if r is RAISED:
            return
        w2 = np.array(table2d(want, case, order))
        a = np.asarray(r, dtype=float)
        if a.shape != w2.shape or not np.allclose(a, w2, rtol=0, atol=1e-15):
            out.fail("reorder_parents[copy]:returned_table", f"{a.tolist()} vs {w2.tolist()}")
        untouched("reorder_parents[copy]")
    elif op == "marginalize":
        gone = args["vars"]
        rest = [p for p in parents if p not in gone]
        # reference: sum over the marginalised parents, renormalise each column
        acc = {}
        for (cs, key), p in want.items():
            k2 = (cs, frozenset(x for x in key if x[0] not in gone))
            acc[k2] = acc.get(k2, 0.0) + p
        tot = {}
        for (cs, key), p in acc.items():
            tot[key] = tot.get(key, 0.0) + p
        w = {(cs, key): p / tot[key] for (cs, key), p in acc.items()}
        r = out.call("marginalize", cpd.marginalize, list(gone), inplace=inplace)
        if r is RAISED:
            return
        res = cpd if inplace else r
        if set(res.variables) != {child} | set(rest) or res.variables[0] != child:
            out.fail("marginalize:scope", f"{res.variables}")
            return
        if check_states(out, "marginalize", res, case, [child] + rest):
            cmp_named(out, "marginalize", cpd_named(res), w, tol=1e-9)
        if set(res.state_names) != set(res.variables):
            out.fail("marginalize:stale_state_names", f"{list(res.state_names)} vs {res.variables}")
        if not inplace:
            untouched("marginalize")
    elif op == "reduce":
        assign = args["assign"]
        fixed = {(p, s) for p, s in assign}
        gone = {p for p, _ in assign}
        w = {(cs, frozenset(x for x in key if x[0] not in gone)): p for (cs, key), p in want.items() if fixed <= key}
        r = out.call("reduce", cpd.reduce, [tuple(a) for a in assign], inplace=inplace)
        if r is RAISED:
            return
        res = cpd if inplace else r
        rest = [p for p in parents if p not in gone]
        if set(res.variables) != {child} | set(rest) or res.variables[0] != child:
            out.fail("reduce:scope", f"{res.variables}")
            return
        if check_states(out, "reduce", res, case, [child] + rest):
            cmp_named(out, "reduce", cpd_named(res), w, tol=1e-9)
        if not inplace:
            untouched("reduce")
    elif op == "normalize":
        r = out.call("normalize", cpd.normalize, inplace=inplace)
        if r is RAISED:
            return
        res = cpd if inplace else r
        if check_states(out, "normalize", res, case, [child] + parents):
            cmp_named(out, "normalize", cpd_named(res), want, tol=1e-9)
        if not inplace:
            untouched("normalize")
    elif op == "copy":
        c2 = out.call("copy", cpd.copy)
        if c2 is RAISED:
            return
        if list(c2.variables) != list(cpd.variables):
            out.fail("copy:variable_order", f"{c2.variables}")
        if check_states(out, "copy", c2, case, [child] + parents):
            cmp_named(out, "copy", cpd_named(c2), want)
        # edits of the copy must not reach the original
        try:
            c2.values[...] = 0.5
            if parents:
                c2.marginalize([parents[0]], inplace=True)
        except Exception:  # noqa: BLE001
            pass
        untouched("copy")
    elif op == "to_csv":
        # the exported 2-D table: one header row per parent naming the parent state of every column, then one row per
        # child state; cell (i, j) is P(child = state i | j-th parent configuration in row-major order)
        import csv
        import os

        path = os.path.join(os.environ.get("VF_TMP") or "/tmp", "cpd.csv")
        r = out.call("to_csv", cpd.to_csv, path)
        if r is RAISED:
            return
        with open(path, newline="") as fh:
            rows = list(csv.reader(fh))
        sts = {v: case["states"][([child] + parents).index(v)] for v in [child] + parents}
        cfgs = list(itertools.product(*[range(len(sts[p])) for p in parents]))
        want_rows = [[str(p)] + [f"{p}({sts[p][cfg[i]]})" for cfg in cfgs] for i, p in enumerate(parents)]
        if len(rows) != len(parents) + len(sts[child]):
            out.fail("to_csv:row_count", f"{len(rows)} rows")
            return
        for i, hdr in enumerate(want_rows):
            if rows[i] != hdr:
                out.fail("to_csv:header", f"row {i}: {rows[i]} vs {hdr}")
                return
        for i, st_ in enumerate(sts[child]):
            row = rows[len(parents) + i]
            if row[0] != f"{child}({st_})" or len(row) != 1 + len(table[0]):
                out.fail("to_csv:row_label", f"{row[:1]} vs {child}({st_})")
                return
            vals = [float(x) for x in row[1:]]
            if any(abs(a - b) > 1e-12 * max(1.0, abs(b)) for a, b in zip(vals, table[i])):
                out.fail("to_csv:values", f"row {i}: {vals} vs {table[i]}")
                return
        untouched("to_csv")
    elif op == "to_factor":
        f = out.call("to_factor", cpd.to_factor)
        if f is RAISED:
            return
        if list(f.variables) != [child] + parents:
            out.fail("to_factor:variables", f"{f.variables}")
        elif check_states(out, "to_factor", f, case, [child] + parents):
            cmp_named(out, "to_factor", cpd_named(f), want)
        try:
            f.product(2.0, inplace=True)
            if parents:
                f.marginalize([parents[0]], inplace=True)
        except Exception:  # noqa: BLE001
            pass
        untouched("to_factor")
    out.sample = {"child": child, "parents": parents, "card": case["card"], "op": op, "args": args, "inplace": inplace}


# ---------------------------------------------------------------------------------------------- validation
DEFECTS = ["none", "none", "missing_cpd", "wrong_parent_set_missing", "wrong_parent_set_extra", "wrong_parent_set_swapped", "wrong_evidence_card",
           "state_name_mismatch", "state_name_order_mismatch", "colsum_small", "colsum_big"]


@st.composite
def model_case(draw):
    spec = draw(gen.bn_spec(min_nodes=1, max_nodes=5))
    defect = draw(st.sampled_from(DEFECTS))
    k = draw(st.integers(0, 10**6))
    delta = draw(st.sampled_from([1e-4, 1e-3, 0.005, 0.009, -0.009, -0.005])) if defect == "colsum_small" else draw(st.sampled_from([0.0111, 0.02, 0.1, 0.5, -0.0111, -0.05, -0.3]))
    return {"spec": spec, "defect": defect, "k": k, "delta": delta}


def check_model_case(case, out):
    from pgmpy.factors.discrete import TabularCPD

    spec, defect, k = case["spec"], case["defect"], case["k"]
    nodes = spec["nodes"]
    idx = {v: i for i, v in enumerate(nodes)}
    out.cls(f"defect_{defect}")
    model = out.call("build", build_bn, spec, with_cpds=False)
    if model is RAISED:
        return
    cpds = {c["var"]: c for c in spec["cpds"]}
    built = {}
    applied = defect
    target = spec["cpds"][k % len(spec["cpds"])]
    for c in spec["cpds"]:
        built[c["var"]] = build_cpd(spec, c, explicit_states=True)
    v = target["var"]
    if defect == "missing_cpd":
        del built[v]
    elif defect == "wrong_parent_set_missing":
        cands = [c for c in spec["cpds"] if c["parents"]]
        if not cands:
            applied = "none"
        else:
            c = cands[k % len(cands)]
            built[c["var"]].marginalize([c["parents"][0]], inplace=True)
    elif defect == "wrong_parent_set_extra":
        others = [u for u in nodes if u != v and u not in target["parents"]]
        if not others:
            applied = "none"
        else:
            u = others[k % len(others)]
            ps = list(target["parents"]) + [u]
            cu = spec["card"][idx[u]]
            tab = [[x for x in row for _ in range(cu)] for row in target["table"]]
            built[v] = TabularCPD(v, spec["card"][idx[v]], tab, evidence=ps, evidence_card=[spec["card"][idx[p]] for p in ps],
                                  state_names={x: list(spec["states"][idx[x]]) for x in [v] + ps})
    elif defect == "wrong_parent_set_swapped":
        # same number of parents, but one of them is replaced by a node that is not a parent in the graph
        cands = [(c, u) for c in spec["cpds"] if c["parents"] for u in nodes if u != c["var"] and u not in c["parents"]]
        if not cands:
            applied = "none"
        else:
            c, u = cands[k % len(cands)]
            ps = list(c["parents"][:-1]) + [u]
            ncol = 1
            for x in ps:
                ncol *= spec["card"][idx[x]]
            tab = [[row[j % len(row)] for j in range(ncol)] for row in c["table"]]
            built[c["var"]] = TabularCPD(c["var"], spec["card"][idx[c["var"]]], tab, evidence=ps, evidence_card=[spec["card"][idx[x]] for x in ps],
                                         state_names={x: list(spec["states"][idx[x]]) for x in [c["var"]] + ps})
    elif defect == "wrong_evidence_card":
        cands = [c for c in spec["cpds"] if c["parents"]]
        if not cands:
            applied = "none"
        else:
            c = cands[k % len(cands)]
            p = c["parents"][-1]
            cp = spec["card"][idx[p]] + 1
            tab = []
            ncol_other = len(c["table"][0]) // spec["card"][idx[p]]
            for row in c["table"]:
                new = []
                for j in range(ncol_other):
                    block = row[j * spec["card"][idx[p]] : (j + 1) * spec["card"][idx[p]]]
                    new.extend(block + [block[-1]])
                tab.append(new)
            sn = {x: list(spec["states"][idx[x]]) for x in [c["var"]] + c["parents"]}
            sn[p] = sn[p] + ["extra_state"]
            built[c["var"]] = TabularCPD(c["var"], spec["card"][idx[c["var"]]], tab, evidence=list(c["parents"]),
                                         evidence_card=[spec["card"][idx[x]] if x != p else cp for x in c["parents"]], state_names=sn)
    elif defect == "state_name_mismatch":
        cands = [c for c in spec["cpds"] if c["parents"]]
        if not cands:
            applied = "none"
        else:
            c = cands[k % len(cands)]
            p = c["parents"][0]
            sn = {x: list(spec["states"][idx[x]]) for x in [c["var"]] + c["parents"]}
            sn[p] = [("renamed", i) for i in range(len(sn[p]))]
            built[c["var"]] = TabularCPD(c["var"], spec["card"][idx[c["var"]]], c["table"], evidence=list(c["parents"]),
                                         evidence_card=[spec["card"][idx[x]] for x in c["parents"]], state_names=sn)
    elif defect == "state_name_order_mismatch":
        # the child's CPD lists the same state names for a parent as the parent's own CPD, but in another order: the two
        # CPDs then disagree about which column is which state
        cands = [(c, p) for c in spec["cpds"] for p in c["parents"] if spec["card"][idx[p]] >= 2]
        if not cands:
            applied = "none"
        else:
            c, p = cands[k % len(cands)]
            sn = {x: list(spec["states"][idx[x]]) for x in [c["var"]] + c["parents"]}
            sn[p] = sn[p][1:] + sn[p][:1]
            built[c["var"]] = TabularCPD(c["var"], spec["card"][idx[c["var"]]], c["table"], evidence=list(c["parents"]),
                                         evidence_card=[spec["card"][idx[x]] for x in c["parents"]], state_names=sn)
    elif defect in ("colsum_small", "colsum_big"):
        tab = [list(r) for r in target["table"]]
        col = k % len(tab[0])
        # put the error on the largest entry of the column so that it stays in [0, 1.5]
        i = max(range(len(tab)), key=lambda r: tab[r][col])
        if tab[i][col] + case["delta"] < 0:
            applied = "none"
        else:
            tab[i][col] += case["delta"]
            built[v] = build_cpd(spec, dict(target, table=tab), explicit_states=True)
    r = out.call("add_cpds", model.add_cpds, *built.values()) if built else None
    if r is RAISED:
        if applied in ("wrong_parent_set_extra",):
            return  # rejected already when adding: fine
        return
    out.nontrivial = applied != "none"
    expect_ok = applied in ("none", "colsum_small")
    try:
        ok = model.check_model()
        err = None
    except ValueError as e:
        ok, err = False, e
    except Exception as e:  # noqa: BLE001
        out.fail(f"check_model:wrong_exception[{applied}]", f"{type(e).__name__}: {e}")
        return
    if expect_ok and not ok:
        out.fail(f"check_model:rejects_valid[{applied}]", f"{err} delta={case['delta'] if 'colsum' in applied else None}")
    elif not expect_ok and ok:
        out.fail(f"check_model:accepts_defect[{applied}]", f"delta={case['delta'] if 'colsum' in applied else None} var={v!r}")
    if ok and ok is not True:
        out.fail("check_model:return_value", repr(ok))
    if ok:
        # accepted models: parents = graph parents, consistent cards / state names, joint sums to ~1
        par = {x: set() for x in nodes}
        for a, b in spec["edges"]:
            par[b].add(a)
        for x in nodes:
            c = model.get_cpds(x)
            if set(c.variables[1:]) != par[x]:
                out.fail("accepted_model:parents_differ_from_graph", f"{x!r}")
            for y, cy in zip(c.variables, c.cardinality):
                if int(cy) != spec["card"][idx[y]] and applied == "none":
                    out.fail("accepted_model:cardinality", f"{x!r}/{y!r}")
        if applied in ("none", "colsum_small"):
            sp2 = dict(spec)
            if applied == "colsum_small":
                sp2 = dict(spec, cpds=[dict(c, table=[[float(z) for z in row] for row in model.get_cpds(c["var"]).get_values().tolist()], parents=list(model.get_cpds(c["var"]).variables[1:])) for c in spec["cpds"]])
            tot = Joint.from_bn(sp2).total()
            n = len(nodes)
            if abs(tot - 1.0) > (1.0101 ** n - 1) + 1e-9:
                out.fail("accepted_model:joint_not_normalised", f"total={tot}")
    out.sample = {"edges": spec["edges"], "defect": applied}


@st.composite
def valid_case(draw):
    k = draw(st.integers(1, 4))
    ncol = draw(st.integers(1, 4))
    cols = [draw(gen.column(k, ("dense", "zeros", "onehot", "tiny"))) for _ in range(ncol)]
    delta = draw(st.sampled_from([0.0, 1e-6, 1e-3, 0.005, 0.009, -0.009, 0.0111, -0.0111, 0.02, -0.02, 0.3]))
    col = draw(st.integers(0, ncol - 1))
    return {"k": k, "cols": cols, "delta": delta, "col": col}


def check_valid_cpd(case, out):
    from pgmpy.factors.discrete import TabularCPD

    k, cols = case["k"], [list(c) for c in case["cols"]]
    i = max(range(k), key=lambda r: cols[case["col"]][r])
    if cols[case["col"]][i] + case["delta"] < 0:
        out.cls("skipped_negative")
        out.evals = 0
        return
    cols[case["col"]][i] += case["delta"]
    table = [[cols[j][r] for j in range(len(cols))] for r in range(k)]
    kw = dict(evidence=["p"], evidence_card=[len(cols)]) if len(cols) > 1 else {}
    cpd = out.call("construct", TabularCPD, "c", k, table, **kw)
    if cpd is RAISED:
        return
    want = abs(case["delta"]) <= 0.009
    out.nontrivial = case["delta"] != 0.0
    out.cls("within_tolerance" if want else "outside_tolerance")
    r = out.call("is_valid_cpd", cpd.is_valid_cpd)
    if r is not RAISED and bool(r) != want:
        out.fail(f"is_valid_cpd:{'rejects_valid' if want else 'accepts_invalid'}", f"delta={case['delta']} table={table}")


THOROUGH_SCALE = 6  # thorough-tier example counts are n["thorough"] x this (one thorough run then takes roughly 5-10 minutes on 16 cores)
SUBCHECKS = [
    Sub("cpd_ops", check_cpd, strategy=lambda tier: cpd_case(), n={"quick": 400, "thorough": 6000},
        shards={"quick": 8, "thorough": 16}, fuzz={"thorough": (2, 300)}, doc="TabularCPD construction and every transformation vs the column-meaning reference, state names, immutability"),
    Sub("check_model", check_model_case, strategy=lambda tier: model_case(), n={"quick": 250, "thorough": 3000},
        shards={"quick": 4, "thorough": 8}, doc="BayesianNetwork.check_model on valid specs and on single-defect variants; accepted models are consistent and normalised"),
    Sub("is_valid_cpd", check_valid_cpd, strategy=lambda tier: valid_case(), n={"quick": 300, "thorough": 3000},
        shards={"quick": 2, "thorough": 4}, doc="TabularCPD.is_valid_cpd on both sides of the documented tolerance"),
]
PREDICATES = {}
