"""C19 — conditional-independence tests compute the statistic they document."""
import itertools
import math

from hypothesis import strategies as st

from .. import gen
from ..core import RAISED, Sub

RULE = (
    "discrete: data frames (3-5 columns, 5-200 rows, cards 2-4, int / object / categorical columns, sparse strata, "
    "strata where X or Y is constant, and exactly independent tables built as outer products of integer margins "
    "per stratum) x (X, Y, Z subset incl. empty) x lambda_ in {numeric 0, 0.0, 1, -1, -2, -0.5, 2/3, pearson, log-likelihood, freeman-tukey, "
    "mod-log-likelihood, neyman, cressie-read, floats} x significance level; oracle = stratification by plain "
    "loops + scipy.stats.chi2_contingency per stratum (the documented base statistic), statistics and degrees of "
    "freedom summed, p = chi2.sf. continuous: frames of 20-200 rows with full column rank and affine maps a*v+b "
    "(a>0); oracle = Pearson r of least-squares residuals with intercept. non-trivial = |Z|>=1 with >=2 "
    "non-degenerate strata and a table larger than 2x2 (discrete) / |Z|>=1 (continuous); distinct = sha1."
)
ASSUMPTIONS = [
    "every category of a categorical column is observed (unobserved categories make scipy raise on zero expected counts)",
    "scipy.stats.chi2_contingency (with its default continuity correction) is the trusted base statistic per stratum",
    "p-values compared with 1e-10 absolute (the library uses 1-cdf), statistics with 1e-9 relative; nan==nan, inf==inf",
    "partial correlation: |dr| <= 1e-8 under shifts and positive rescalings; regression with intercept",
]
LAMBDAS = ["pearson", 0, "log-likelihood", "freeman-tukey", "mod-log-likelihood", "neyman", "cressie-read", 0.5, 2.0, -0.25,
           0.0, 1, -1, -2.0, -0.5, 2 / 3]  # numeric members of the family, including the falsy zero (= G-test)


@st.composite
def disc_case(draw):
    mode = draw(st.sampled_from(["random", "random", "independent", "sparse"]))
    ncol = draw(st.integers(3, 5))
    cols = list(draw(st.permutations(gen.DATA_COLS)))[:ncol]
    kinds = [draw(st.sampled_from(["int", "obj", "cat"])) for _ in cols]
    cards = [draw(st.integers(2, 4)) for _ in cols]
    order = list(draw(st.permutations(cols)))
    X, Y = order[0], order[1]
    nz = draw(st.integers(0, min(2, ncol - 2)))
    Z = order[2 : 2 + nz]
    rows = []
    ci = {c: i for i, c in enumerate(cols)}
    if mode == "independent":
        ax = [draw(st.integers(1, 3)) for _ in range(cards[ci[X]])]
        by = [draw(st.integers(1, 3)) for _ in range(cards[ci[Y]])]
        zcfgs = list(itertools.product(*[range(cards[ci[z]]) for z in Z]))[:6]
        for zc in zcfgs:
            mult = draw(st.integers(1, 2))
            # per-stratum margins may differ: permute them
            axz = list(draw(st.permutations(ax)))
            byz = list(draw(st.permutations(by)))
            for xi, a in enumerate(axz):
                for yi, b in enumerate(byz):
                    for _ in range(a * b * mult):
                        r = [0] * ncol
                        r[ci[X]], r[ci[Y]] = xi, yi
                        for z, zv in zip(Z, zc):
                            r[ci[z]] = zv
                        for c in cols:
                            if c not in (X, Y) and c not in Z:
                                r[ci[c]] = 0
                        rows.append(r)
    else:
        n = draw(st.integers(5, 40 if mode == "sparse" else 200))
        for _ in range(n):
            r = []
            for j in range(ncol):
                if j > 0 and draw(st.integers(0, 2)) == 0:
                    r.append(r[j - 1] % cards[j])
                else:
                    r.append(draw(st.integers(0, cards[j] - 1)))
            rows.append(r)
    lam = draw(st.sampled_from(LAMBDAS))
    alpha = draw(st.sampled_from([0.01, 0.05, 0.5, 0.9]))
    perm = list(draw(st.permutations(list(range(len(rows)))))) if len(rows) <= 120 else list(reversed(range(len(rows))))
    return {"mode": mode, "columns": cols, "kinds": kinds, "cards": cards, "rows": rows, "X": X, "Y": Y, "Z": Z, "lambda": lam, "alpha": alpha, "perm": perm}


def _frame(case, rows=None, relabel=False):
    import pandas as pd

    rows = case["rows"] if rows is None else rows
    data = {}
    for j, c in enumerate(case["columns"]):
        vals = [r[j] for r in rows]
        k = case["kinds"][j]
        if relabel:
            vals = [case["cards"][j] - 1 - v for v in vals]  # reverse the label order
        if k == "int":
            data[c] = pd.Series(vals, dtype="int64")
        elif k == "obj":
            data[c] = pd.Series([f"s{v}" for v in vals], dtype=object)
        else:
            labs = [f"s{v}" for v in vals]
            data[c] = pd.Categorical(labs, categories=sorted(set(labs)))
    return pd.DataFrame(data)


def reference(case, rows, X, Y, Z, lam):
    import numpy as np
    from scipy import stats

    ci = {c: i for i, c in enumerate(case["columns"])}
    strata = {}
    for r in rows:
        strata.setdefault(tuple(r[ci[z]] for z in Z), []).append((r[ci[X]], r[ci[Y]]))
    chi, dof = 0.0, 0
    nondeg = 0
    big = False
    for key in sorted(strata):
        pairs = strata[key]
        xs = sorted({p[0] for p in pairs})
        ys = sorted({p[1] for p in pairs})
        tab = np.zeros((len(xs), len(ys)), dtype=int)
        for a, b in pairs:
            tab[xs.index(a), ys.index(b)] += 1
        c, _, d, _ = stats.chi2_contingency(tab, lambda_=lam)
        chi += c
        dof += d
        if len(xs) > 1 and len(ys) > 1:
            nondeg += 1
            if len(xs) > 2 or len(ys) > 2:
                big = True
    p = stats.chi2.sf(chi, dof) if dof > 0 else 1.0  # no degrees of freedom: nothing speaks against independence
    return float(chi), float(p), int(dof), nondeg, big


def _eq(a, b, rtol=1e-9, atol=1e-9):
    a, b = float(a), float(b)
    if math.isnan(a) or math.isnan(b):
        return math.isnan(a) and math.isnan(b)
    if math.isinf(a) or math.isinf(b):
        return a == b
    return abs(a - b) <= atol + rtol * max(abs(a), abs(b))


def check_disc(case, out):
    from pgmpy.estimators import CITests as CT

    X, Y, Z, lam = case["X"], case["Y"], case["Z"], case["lambda"]
    rows = case["rows"]
    ci = {c: i for i, c in enumerate(case["columns"])}
    # precondition for the unconditional path: every declared category observed -> categories are built from the data
    import warnings

    with warnings.catch_warnings():
        warnings.simplefilter("ignore")
        try:
            chi, p, dof, nondeg, big = reference(case, rows, X, Y, Z, lam)
        except ValueError:
            out.cls("scipy_rejects_table_skipped")
            out.evals = 0
            return
    df = _frame(case)
    out.cls(f"mode_{case['mode']}", f"z{len(Z)}", f"lambda_{lam}")
    out.nontrivial = len(Z) >= 1 and nondeg >= 2 and big
    out.evals = 0

    def run(tag, fn, *a, **k):
        with warnings.catch_warnings():
            warnings.simplefilter("ignore")
            import numpy as np

            with np.errstate(all="ignore"):
                return out.call(tag, fn, *a, **k)

    def cmp(tag, got, want=(chi, p, dof)):
        if got is RAISED:
            return
        if not (isinstance(got, tuple) and len(got) == 3):
            out.fail(f"{tag}:shape", repr(got)[:200])
            return
        if not _eq(got[0], want[0]):
            out.fail(f"{tag}:statistic", f"got {float(got[0])!r} want {want[0]!r} X={X} Y={Y} Z={Z} lambda={lam} n={len(rows)}")
        elif int(got[2]) != want[2]:
            out.fail(f"{tag}:dof", f"got {got[2]} want {want[2]} X={X} Y={Y} Z={Z}")
        elif not _eq(got[1], want[1], rtol=1e-8, atol=1e-10):
            out.fail(f"{tag}:p_value", f"got {float(got[1])!r} want {want[1]!r} chi={chi} dof={dof}")

    got = run("power_divergence", CT.power_divergence, X, Y, list(Z), df, boolean=False, lambda_=lam)
    out.evals += 1
    cmp("power_divergence", got)
    # symmetry, row order, order of Z, relabelling
    cmp("power_divergence[swap_xy]", run("power_divergence[swap_xy]", CT.power_divergence, Y, X, list(Z), df, boolean=False, lambda_=lam))
    if True:
        df2 = _frame(case, rows=[rows[i] for i in case["perm"]])
        cmp("power_divergence[row_order]", run("power_divergence[row_order]", CT.power_divergence, X, Y, list(reversed(Z)), df2, boolean=False, lambda_=lam))
    df3 = _frame(case, relabel=True)
    cmp("power_divergence[relabel]", run("power_divergence[relabel]", CT.power_divergence, X, Y, list(Z), df3, boolean=False, lambda_=lam))
    out.evals += 3
    # Z given as a tuple
    cmp("power_divergence[z_tuple]", run("power_divergence[z_tuple]", CT.power_divergence, X, Y, tuple(Z), df, boolean=False, lambda_=lam))
    # named wrappers
    for name, l2 in (("chi_square", "pearson"), ("g_sq", "log-likelihood"), ("log_likelihood", "log-likelihood"), ("modified_log_likelihood", "mod-log-likelihood")):
        with warnings.catch_warnings():
            warnings.simplefilter("ignore")
            w = reference(case, rows, X, Y, Z, l2)[:3]
        cmp(name, run(name, getattr(CT, name), X, Y, list(Z), df, boolean=False), w)
        out.evals += 1
    # exactly independent tables: statistic 0, p-value 1
    if case["mode"] == "independent" and dof > 0:
        out.cls("exactly_independent")
        if got is not RAISED and (abs(float(got[0])) > 1e-9 or abs(float(got[1]) - 1.0) > 1e-9):
            out.fail("power_divergence:independent_table_not_zero", f"statistic {float(got[0])!r} p {float(got[1])!r}")
    # boolean verdict == (p >= alpha) on both sides of p
    if not math.isnan(p):
        for alpha in {case["alpha"], min(0.999999, p + 1e-6) if p < 0.99 else 0.5, max(1e-12, p - 1e-6) if p > 1e-5 else 1e-12}:
            if abs(alpha - p) < 1e-9:
                continue
            b = run("power_divergence[boolean]", CT.power_divergence, X, Y, list(Z), df, boolean=True, lambda_=lam, significance_level=alpha)
            out.evals += 1
            if b is not RAISED and bool(b) != (p >= alpha):
                out.fail("power_divergence:boolean_verdict", f"p={p!r} alpha={alpha!r} verdict={b}")
    # the verdict against the library's own p-value, at the boundary: alpha = p itself and its two neighbouring floats
    if got is not RAISED and not math.isnan(float(got[1])) and 0.0 < float(got[1]) < 1.0:
        pl = float(got[1])
        for alpha, want_v in ((pl, True), (math.nextafter(pl, 0.0), True), (math.nextafter(pl, 1.0), False)):
            b = run("power_divergence[boolean]", CT.power_divergence, X, Y, list(Z), df, boolean=True, lambda_=lam, significance_level=alpha)
            out.evals += 1
            if b is not RAISED and bool(b) != want_v:
                out.fail("power_divergence:boolean_verdict_at_boundary", f"library p={pl!r} alpha={alpha!r} verdict={b}")
                break
    out.sample = {"columns": case["columns"], "n_rows": len(rows), "X": X, "Y": Y, "Z": Z, "lambda": lam, "mode": case["mode"]}


# ---------------------------------------------------------------------------------------------- pearsonr
@st.composite
def cont_case(draw):
    ncol = draw(st.integers(3, 5))
    n = draw(st.integers(20, 120))
    cols = ["X", "Y", "Z1", "Z2", "Z3"][:ncol]
    # integer-valued noise keeps everything exactly representable; a lower-triangular mixing gives correlation
    base = [[draw(st.integers(-50, 50)) for _ in range(ncol)] for _ in range(n)]
    mix = [[draw(st.integers(-3, 3)) if j < i else (1 if i == j else 0) for j in range(ncol)] for i in range(ncol)]
    rows = [[sum(mix[i][j] * b[j] for j in range(ncol)) / 10.0 for i in range(ncol)] for b in base]
    nz = draw(st.integers(0, ncol - 2))
    aff = [[draw(st.sampled_from([1.0, 0.5, 2.0, 10.0, 0.01])), draw(st.sampled_from([0.0, 1.0, -5.0, 100.0, 1e4]))] for _ in range(ncol)]
    return {"columns": cols, "rows": rows, "Z": cols[2 : 2 + nz], "affine": aff, "index_mode": draw(st.sampled_from(["default", "default", "shuffled", "offset", "strings"])),
            "index_perm": list(draw(st.permutations(list(range(len(rows))))))}


def check_cont(case, out):
    import numpy as np
    import pandas as pd
    from pgmpy.estimators.CITests import pearsonr
    from scipy import stats

    cols, rows, Z = case["columns"], case["rows"], case["Z"]
    A = np.array(rows, dtype=float)
    # full column rank is the documented domain
    M = np.column_stack([A, np.ones(len(rows))])
    if np.linalg.matrix_rank(M) < M.shape[1] or np.std(A[:, 0]) < 1e-9 or np.std(A[:, 1]) < 1e-9:
        out.cls("rank_deficient_skipped")
        out.evals = 0
        return
    df = pd.DataFrame(A, columns=cols)
    # row labels other than 0..n-1 (a shuffled, filtered or shifted frame): rows stay rows
    mode = case.get("index_mode", "default")
    if mode == "shuffled":
        df.index = list(case["index_perm"])
    elif mode == "offset":
        df.index = [100 + 3 * i for i in range(len(df))]
    elif mode == "strings":
        df.index = [f"r{i}" for i in case["index_perm"]]
    out.cls(f"index_{mode}")
    out.nontrivial = len(Z) >= 1
    out.cls(f"z{len(Z)}")

    def ref(arr):
        x, y = arr[:, 0], arr[:, 1]
        if Z:
            D = np.column_stack([arr[:, [cols.index(z) for z in Z]], np.ones(len(arr))])
            x = x - D @ np.linalg.lstsq(D, x, rcond=None)[0]
            y = y - D @ np.linalg.lstsq(D, y, rcond=None)[0]
        if np.std(x) < 1e-12 or np.std(y) < 1e-12:
            return None
        r, p = stats.pearsonr(x, y)
        return float(r), float(p)

    want = ref(A)
    if want is None:
        out.cls("degenerate_residuals_skipped")
        out.evals = 0
        return
    got = out.call("pearsonr", pearsonr, "X", "Y", list(Z), df, boolean=False)
    out.evals = 1
    if got is not RAISED:
        if abs(float(got[0]) - want[0]) > 1e-8:
            out.fail("pearsonr:coefficient" + ("[conditional]" if Z else ""), f"got {float(got[0])!r} want {want[0]!r} Z={Z} n={len(rows)}")
        elif abs(float(got[1]) - want[1]) > 1e-8:
            out.fail("pearsonr:p_value" + ("[conditional]" if Z else ""), f"got {float(got[1])!r} want {want[1]!r}")
    # affine invariance (metamorphic, needs no reference)
    B = A.copy()
    for j, (a, b) in enumerate(case["affine"]):
        B[:, j] = a * B[:, j] + b
    got2 = out.call("pearsonr[affine]", pearsonr, "X", "Y", list(Z), pd.DataFrame(B, columns=cols), boolean=False)
    out.evals += 1
    if got is not RAISED and got2 is not RAISED and abs(float(got[0]) - float(got2[0])) > 1e-8:
        out.fail("pearsonr:not_affine_invariant" + ("[conditional]" if Z else ""), f"r={float(got[0])!r} after a*v+b: {float(got2[0])!r}; Z={Z} affine={case['affine']}")
    # boolean verdict
    if got is not RAISED:
        p = float(got[1])
        for alpha in (0.05, min(0.999, p + 1e-4), max(1e-9, p - 1e-4)):
            if abs(alpha - p) < 1e-9:
                continue
            b = out.call("pearsonr[boolean]", pearsonr, "X", "Y", list(Z), df, boolean=True, significance_level=alpha)
            if b is not RAISED and bool(b) != (p >= alpha):
                out.fail("pearsonr:boolean_verdict", f"p={p} alpha={alpha} verdict={b}")
    out.sample = {"n_rows": len(rows), "Z": Z, "affine": case["affine"]}


THOROUGH_SCALE = 3  # thorough-tier example counts are n["thorough"] x this (one thorough run then takes roughly 5-10 minutes on 16 cores)
SUBCHECKS = [
    Sub("power_divergence", check_disc, strategy=lambda tier: disc_case(), n={"quick": 80, "thorough": 1500},
        shards={"quick": 8, "thorough": 16}, doc="power_divergence and named wrappers vs hand stratification + scipy per stratum; symmetry, row/Z order, relabelling, independent tables, boolean verdict"),
    Sub("pearsonr", check_cont, strategy=lambda tier: cont_case(), n={"quick": 120, "thorough": 2000},
        shards={"quick": 4, "thorough": 8}, doc="partial-correlation test vs Pearson r of least-squares residuals (with intercept); affine invariance; boolean verdict"),
]
PREDICATES = {}
