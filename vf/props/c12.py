"""C12 — constraint-based discovery is exact given exact independence information."""
import itertools

from hypothesis import strategies as st

from .. import gen
from ..core import RAISED, Sub
from ..oracle import cpdag as OC
from ..oracle.dsep import G

RULE = (
    "exhaustive: every labelled DAG on 2..4 (quick) / 2..5 (thorough) nodes as ground truth, node labels permuted "
    "in rotation, x variants {orig, stable, parallel(n_jobs=1)} x information {callable d-separation oracle, "
    "independence_match on the full list of true singleton statements} x return types {skeleton, cpdag, dag}; "
    "random 6-7 node DAGs and collider-with-tail DAGs (chained compelled edges, random name order) via Hypothesis; PDAG.to_dag on every CPDAG (n<=4 quick, n<=5 thorough), on PDAGs made "
    "from a DAG by keeping a superset of its v-structure edges directed, and on all 4096 four-node PDAGs that a "
    "brute-force search finds extendable. Oracles: skeleton/v-structure signature, CPDAG = edges common to all "
    "members of the enumerated equivalence class (Meek rules beyond n=5, self-tested against the enumeration). "
    "non-trivial = ground truth has a v-structure or >= 3 edges (PC) / PDAG has an undirected edge (to_dag); "
    "enumerated cases are distinct by construction."
)
ASSUMPTIONS = [
    "independence_match is used only on DAGs in which every node occurs in some true independence statement "
    "(PC takes its variable set from the statements; a node adjacent to all others is invisible to it)",
    "node names are strings (IndependenceAssertion and DataFrame columns)",
    "max_cond_vars = number of nodes or, alternating, the largest degree of the true skeleton (tight but sufficient; two of the three variants, rotating with the case); parallel variant runs with n_jobs=1 (a thorough-tier sample uses n_jobs=2)",
    "PDAG extendability = existence of a DAG with the same skeleton, the same directed edges and exactly the "
    "PDAG's v-structures (Dor & Tarsi); non-extendable PDAGs are not checked",
]
EXHAUSTIVE = {
    "quick": "all labelled DAGs n<=4 as PC ground truth; all CPDAGs n<=4; all extendable 4-node PDAGs",
    "thorough": "all labelled DAGs n<=5 as PC ground truth; all CPDAGs n<=5; all extendable 4-node PDAGs",
}

LABELS = ["A", "B", "C", "D", "E", "F", "G"]
VARIANTS = ["orig", "stable", "parallel"]


def _perm(n, k):
    perms = list(itertools.permutations(range(n)))
    return perms[(k * 7) % len(perms)]


def _enum_pc(tier):
    ns = [2, 3, 4] if tier == "quick" else [2, 3, 4, 5]
    index = [(n, i) for n in ns for i in range(len(gen.all_dags(n)))]

    def it(lo, hi):
        for gi in range(lo, hi):
            n, i = index[gi]
            p = _perm(n, gi)
            yield {"n": n, "edges": [[LABELS[p[u]], LABELS[p[v]]] for u, v in gen.all_dags(n)[i]], "nodes": [LABELS[k] for k in range(n)]}

    return len(index), it


def _truth(case):
    nodes = case["nodes"]
    g = G(nodes, case["edges"])
    if len(nodes) <= 5:
        idx = {v: i for i, v in enumerate(nodes)}
        d, u = OC.cpdag_bruteforce(len(nodes), tuple(sorted((idx[a], idx[b]) for a, b in case["edges"])))
        directed = {(nodes[a], nodes[b]) for a, b in d}
        und = {frozenset(nodes[x] for x in e) for e in u}
    else:
        directed, und = OC.cpdag_meek(nodes, [tuple(e) for e in case["edges"]])
    return g, directed, und


def _statements(g):
    out = []
    nodes = g.nodes
    for x, y in itertools.combinations(nodes, 2):
        rest = [v for v in nodes if v not in (x, y)]
        for r in range(len(rest) + 1):
            for Z in itertools.combinations(rest, r):
                if g.dsep(x, y, Z):
                    out.append([x, y, list(Z)])
    return out


def _make_pc(case, g, info):
    import pandas as pd
    from pgmpy.estimators import PC
    from pgmpy.independencies import Independencies

    if info == "callable":
        df = pd.DataFrame({v: [0, 1, 0, 1] for v in case["nodes"]})
        est = PC(data=df)

        def oracle(X, Y, Z, **kw):
            return g.dsep(X, Y, list(Z))

        return est, oracle
    stm = _statements(g)
    est = PC(independencies=Independencies(*stm))
    return est, "independence_match"


def _compare_cpdag(out, tag, pd_directed, pd_undirected, nodes, g, directed, und):
    gd = {tuple(e) for e in pd_directed}
    gu = {frozenset(e) for e in pd_undirected}
    if gd == directed and gu == und:
        return
    skel = {frozenset(e) for e in gd} | gu
    detail = f"truth={g.edges} got directed={sorted(gd)} undirected={sorted(map(sorted, gu))} want directed={sorted(directed)} undirected={sorted(map(sorted, und))}"
    if skel != g.skeleton():
        out.fail(f"{tag}:skeleton_of_pdag", detail)
        return
    if not OC.is_acyclic(nodes, gd):
        out.fail(f"{tag}:directed_cycle", detail)
        return
    gv = OC.pdag_vstructures(nodes, gd, gu)
    tv = g.vstructures()
    if gv - tv:
        out.fail(f"{tag}:spurious_vstructure", detail)
    elif tv - gv:
        out.fail(f"{tag}:missing_vstructure", detail)
    elif directed - gd:
        out.fail(f"{tag}:compelled_edge_not_oriented", detail)
    else:
        out.fail(f"{tag}:reversible_edge_oriented", detail)


def check_pc(case, out, variants=VARIANTS, infos=("callable", "independence_match"), n_jobs=1):
    nodes = case["nodes"]
    n = len(nodes)
    g, directed, und = _truth(case)
    out.nontrivial = bool(g.vstructures()) or len(g.edges) >= 3
    out.cls(f"n{n}")
    if g.vstructures():
        out.cls("has_vstructure")
    if directed - {(a, c) for (ab, c) in g.vstructures() for a in ab}:
        out.cls("meek_rule_needed")
    out.evals = 0
    stm = _statements(g)
    seen_vars = set()
    for x, y, Z in stm:
        seen_vars |= {x, y} | set(Z)
    for info in infos:
        if info == "independence_match" and seen_vars != set(nodes):
            out.cls("independence_match_skipped_invisible_node")
            continue
        for variant in variants:
            tag = f"pc[{variant},{info}]"
            r = out.call(tag, _make_pc, case, g, info)
            if r is RAISED:
                continue
            est, ci = r
            # max_cond_vars: generous (number of nodes) or tight (largest degree of the true skeleton, which bounds the
            # size of every separating set PC needs: parents of one endpoint) - alternating with the case
            deg = {v: 0 for v in nodes}
            for a_, b_ in g.edges:
                deg[a_] += 1
                deg[b_] += 1
            tight = (len(g.edges) + ["orig", "stable", "parallel"].index(variant)) % 3 != 0  # two variants of three, rotating
            mcv = max(1, max(deg.values())) if tight else n
            if tight:
                out.cls("tight_max_cond_vars")
            kw = dict(variant=variant, ci_test=ci, max_cond_vars=mcv, n_jobs=n_jobs, show_progress=False)
            # --- skeleton + separating sets
            res = out.call(f"{tag}:skeleton", est.estimate, return_type="skeleton", **kw)
            out.evals += 1
            if res is not RAISED:
                skel, seps = res
                got = {frozenset(e) for e in skel.edges()}
                if got != g.skeleton() or set(skel.nodes()) != set(nodes):
                    out.fail(f"{tag}:skeleton_mismatch", f"truth={g.edges} got={sorted(map(sorted, got))}")
                else:
                    nonadj = {frozenset(p) for p in itertools.combinations(nodes, 2)} - g.skeleton()
                    if set(seps.keys()) != nonadj:
                        out.fail(f"{tag}:sepset_keys", f"truth={g.edges} keys={list(seps.keys())}")
                    for key, S in seps.items():
                        a, b = tuple(key)
                        if not g.dsep(a, b, list(S)):
                            out.fail(f"{tag}:sepset_does_not_separate", f"truth={g.edges} pair={a},{b} S={S}")
            # --- CPDAG
            est, ci = _make_pc(case, g, info)
            kw["ci_test"] = ci
            for rt in ("cpdag", "pdag"):
                if rt == "pdag" and variant != "stable":
                    continue
                res = out.call(f"{tag}:{rt}", est.estimate, return_type=rt, **kw)
                out.evals += 1
                if res is not RAISED:
                    if set(res.nodes()) != set(nodes):
                        out.fail(f"{tag}:cpdag_nodes", f"{list(res.nodes())}")
                    else:
                        _compare_cpdag(out, f"{tag}:cpdag", res.directed_edges, res.undirected_edges, nodes, g, directed, und)
            # --- DAG
            res = out.call(f"{tag}:dag", est.estimate, return_type="dag", **kw)
            out.evals += 1
            if res is not RAISED:
                e = [tuple(x) for x in res.edges()]
                gg = G(nodes, e) if set(res.nodes()) == set(nodes) else None
                if gg is None:
                    out.fail(f"{tag}:dag_nodes", f"{list(res.nodes())}")
                elif not OC.is_acyclic(nodes, e):
                    out.fail(f"{tag}:dag_cyclic", f"truth={g.edges} got={e}")
                elif gg.skeleton() != g.skeleton() or gg.vstructures() != g.vstructures():
                    out.fail(f"{tag}:dag_not_in_class", f"truth={g.edges} got={e}")
    out.sample = {"truth_edges": case["edges"]}


@st.composite
def random_pc_case(draw):
    if draw(st.integers(0, 2)) == 0:
        # "collider with a tail": c -> b <- d and a path b - t1 - t2 - ... whose edges are compelled one after the other
        # (each orientation enables the next), under a random assignment of names, i.e. a random processing order
        k = draw(st.integers(2, 4))
        names = list(draw(st.permutations(["A", "B", "C", "D", "E", "F", "G"])))[: 3 + k]
        c, d, b, tail = names[0], names[1], names[2], names[3:]
        edges = [[c, b], [d, b]] + [[x, y] for x, y in zip([b] + tail[:-1], tail)]
        if draw(st.booleans()) and len(names) < 7:
            extra = [n for n in ["A", "B", "C", "D", "E", "F", "G"] if n not in names][0]
            names.append(extra)
            edges.append([tail[draw(st.integers(0, k - 1))], extra])
        nodes = list(draw(st.permutations(names)))
        return {"nodes": nodes, "edges": edges, "variant": draw(st.sampled_from(VARIANTS)), "shape": "collider_with_tail"}
    spec = draw(gen.dag_spec(min_nodes=6, max_nodes=7, name_kinds=("str",), max_parents=3))
    return {"nodes": spec["nodes"], "edges": spec["edges"], "variant": draw(st.sampled_from(VARIANTS))}


def check_pc_random(case, out):
    if case.get("shape"):
        out.cls(case["shape"])
    check_pc(case, out, variants=[case["variant"]], infos=("callable",))


@st.composite
def njobs_case(draw):
    spec = draw(gen.dag_spec(min_nodes=4, max_nodes=5, name_kinds=("str",), max_parents=3))
    return {"nodes": spec["nodes"], "edges": spec["edges"]}


def check_pc_njobs(case, out):
    check_pc(case, out, variants=["parallel"], infos=("independence_match",), n_jobs=2)


# ---------------------------------------------------------------------------------------------- PDAG.to_dag
def _enum_todag(tier):
    """cases: (kind, n, directed, undirected) over integer nodes, relabelled later."""
    cases = []
    ns = [2, 3, 4] if tier == "quick" else [2, 3, 4, 5]
    for n in ns:
        for sig, members in OC.classes(n).items():
            d, u = OC.cpdag_bruteforce(n, members[0])
            cases.append(("cpdag", n, sorted(d), sorted(tuple(sorted(e)) for e in u)))
    for n in [3, 4] if tier == "quick" else [3, 4, 5]:
        for gi, e in enumerate(gen.all_dags(n)):
            g = G(range(n), e)
            vse = {(a, c) for (ab, c) in g.vstructures() for a in ab}
            free = [x for x in e if x not in vse]
            if n <= 4:
                subsets = [c for r in range(len(free) + 1) for c in itertools.combinations(free, r)]
            else:
                m = gi * 2654435761 % (2 ** len(free)) if free else 0
                subsets = [tuple(x for k, x in enumerate(free) if (m >> k) & 1)]
            for S in subsets:
                d = sorted(vse | set(S))
                u = sorted(tuple(sorted(x)) for x in e if x not in vse and x not in S)
                if u:
                    cases.append(("partial", n, d, u))
    # all four-node PDAGs
    pairs = list(itertools.combinations(range(4), 2))
    for choice in itertools.product((0, 1, 2, 3), repeat=6):
        d, u = [], []
        for (i, j), c in zip(pairs, choice):
            if c == 1:
                d.append((i, j))
            elif c == 2:
                d.append((j, i))
            elif c == 3:
                u.append((i, j))
        cases.append(("all4", 4, d, u))

    def it(lo, hi):
        for gi in range(lo, hi):
            kind, n, d, u = cases[gi]
            p = _perm(n, gi)
            lab = lambda x: LABELS[p[x]]  # noqa: E731
            yield {
                "kind": kind,
                "nodes": [LABELS[k] for k in range(n)],
                "directed": [[lab(a), lab(b)] for a, b in d],
                "undirected": [[lab(a), lab(b)] if gi % 2 else [lab(b), lab(a)] for a, b in u],
                "reverse_lists": bool(gi % 3 == 0),
            }

    return len(cases), it


def check_todag(case, out):
    from pgmpy.base import PDAG

    nodes = case["nodes"]
    idx = {v: i for i, v in enumerate(nodes)}
    d = [tuple(e) for e in case["directed"]]
    u = [tuple(e) for e in case["undirected"]]
    dn = [(idx[a], idx[b]) for a, b in d]
    un = [frozenset((idx[a], idx[b])) for a, b in u]
    out.cls(case["kind"])
    if case["kind"] == "all4":
        if not OC.is_acyclic(range(len(nodes)), dn) or not OC.consistent_extensions(len(nodes), dn, un):
            out.cls("not_extendable_skipped")
            out.evals = 0
            return
    out.nontrivial = bool(u)
    dl, ul = (list(reversed(d)), list(reversed(u))) if case["reverse_lists"] else (d, u)
    pdag = out.call("PDAG", PDAG, directed_ebunch=dl, undirected_ebunch=ul)
    if pdag is RAISED:
        return
    for v in nodes:
        if v not in pdag.nodes():
            pdag.add_node(v)
    res = out.call("to_dag", pdag.to_dag)
    if res is RAISED:
        return
    e = [tuple(x) for x in res.edges()]
    detail = f"directed={d} undirected={u} result={e}"
    if set(res.nodes()) != set(nodes):
        out.fail("to_dag:nodes", detail)
        return
    if not OC.is_acyclic(nodes, e):
        out.fail("to_dag:cyclic", detail)
        return
    skel = {frozenset(x) for x in d} | {frozenset(x) for x in u}
    if {frozenset(x) for x in e} != skel or len(e) != len(skel):
        out.fail("to_dag:skeleton_changed", detail)
        return
    if not set(d) <= set(e):
        out.fail("to_dag:directed_edge_lost", detail)
        return
    want_v = OC.pdag_vstructures(nodes, d, {frozenset(x) for x in u})
    got_v = G(nodes, e).vstructures()
    if got_v != want_v:
        out.fail("to_dag:new_vstructure", detail + f" new={sorted((sorted(ab), c) for ab, c in got_v - want_v)}")
    # the input object must not have been changed by the conversion
    if set(pdag.directed_edges) != set(dl) or set(pdag.undirected_edges) != set(ul):
        out.fail("to_dag:mutated_input", detail)
    out.sample = {"directed": d, "undirected": u}


THOROUGH_SCALE = 4  # thorough-tier example counts are n["thorough"] x this (one thorough run then takes roughly 5-10 minutes on 16 cores)
SUBCHECKS = [
    Sub("pc_exhaustive", check_pc, enumerate=_enum_pc, shards={"quick": 12, "thorough": 16},
        doc="PC (orig/stable/parallel) x (callable d-sep oracle / independence_match) x (skeleton+sepsets, cpdag, pdag, dag) on every small DAG"),
    Sub("to_dag", check_todag, enumerate=_enum_todag, shards={"quick": 4, "thorough": 8},
        doc="PDAG.to_dag on all CPDAGs, on DAG-derived partially directed graphs and on all extendable 4-node PDAGs"),
    Sub("pc_random", check_pc_random, strategy=lambda tier: random_pc_case(), n={"quick": 40, "thorough": 400},
        shards={"quick": 4, "thorough": 8}, doc="PC with a d-separation oracle on random 6-7 node DAGs (Meek-rule CPDAG reference)"),
    Sub("pc_njobs2", check_pc_njobs, strategy=lambda tier: njobs_case(), n={"quick": 1, "thorough": 6},
        shards={"quick": 1, "thorough": 2}, doc="parallel variant with n_jobs=2 (joblib start-up is ~10 s, hence tiny sample)"),
]
PREDICATES = {}
