"""C20 — linear-Gaussian models agree with multivariate-normal algebra."""
import itertools
import math

from hypothesis import strategies as st

from .. import gen
from ..core import RAISED, Sub

RULE = (
    "LGBN: DAGs on 1-6 string-named nodes, coefficients in [-3,3] (some exactly 0), intercepts in [-5,5], variances "
    "in [0.05,4], parents declared in any order; missing-variable subsets of size 1-3 with 1-5 observed rows; "
    "fit on data of 20-120 rows of full column rank. Oracle = mean by recursive substitution, covariance two ways "
    "((I-B)^-T Omega (I-B)^-1 and the recursive rule, which must agree), conditional Gaussian via np.ix_ blocks, "
    "np.linalg.lstsq with intercept. GaussianDistribution: covariance A A^T + eps I over 1-5 variables; "
    "marginalize / reduce vs block formulas, canonical form vs pdf at points, the canonical form's own reduce / marginalize / product / divide / back-conversion vs its log-quadratic function, product vs pointwise product of "
    "densities. non-trivial = >= 3 nodes with a node having >= 2 parents / >= 2 missing variables / overlapping "
    "product scopes; distinct = sha1 of the case."
)
ASSUMPTIONS = [
    "to_joint_gaussian rounds mean and covariance to 8 decimals by design; comparisons of the joint use 2e-7, and the "
    "tolerance of predict() grows with the amplification |S_bb^-1| (1 + |K|) of that rounding (false alarm of the "
    "first thorough run: 1.2e-6 on a well-conditioned chain with variance 0.05)",
    "numpy / scipy linear algebra is the trusted base of the reference",
    "to_joint_gaussian rounds to 8 decimals: tolerance 2e-7 absolute",
    "fit: residual variance may use any of RSS/n, RSS/(n-1), RSS/(n-p-1)",
    "simulate(): sample mean / covariance within a 1e-9 Gaussian tail bound at N = 20000 (statistical, as C07)",
]

NAMES = ["A", "B", "C", "D", "E", "F"]


@st.composite
def lg_case(draw):
    n = draw(st.integers(1, 6))
    names = list(draw(st.permutations(NAMES)))[:n]
    topo = list(draw(st.permutations(names)))
    _, e = draw(gen.dag_edges(n, 3))
    edges = [[topo[i], topo[j]] for i, j in e]
    edges = list(draw(st.permutations(edges))) if edges else []
    par = {v: [] for v in names}
    for u, v in edges:
        par[v].append(u)
    cpds = []
    for v in draw(st.permutations(names)):
        ps = list(draw(st.permutations(par[v])))
        coefs = [draw(st.sampled_from([0.0, 1.0, -1.0, 0.5, 2.0, -3.0, 1.25, -0.75, 3.0])) for _ in ps]
        cpds.append({"var": v, "parents": ps, "intercept": draw(st.sampled_from([0.0, 1.0, -2.0, 5.0, -5.0, 0.3])),
                     "coefs": coefs, "variance": draw(st.sampled_from([0.05, 0.5, 1.0, 2.0, 4.0]))})
    k = draw(st.integers(1, min(3, n))) if n > 1 else 1
    order = list(draw(st.permutations(names)))
    missing = order[:k] if n > 1 else []
    observed = order[k:] if n > 1 else []
    rows = [[draw(st.sampled_from([-2.0, -0.5, 0.0, 1.0, 2.5, 7.0])) for _ in observed] for _ in range(draw(st.integers(1, 5)))]
    return {"nodes": names, "edges": edges, "cpds": cpds, "missing": missing, "observed": observed, "rows": rows, "seed": draw(st.integers(0, 10**6)),
            "fit_rows": draw(st.integers(20, 120))}


def ref_joint(case):
    import numpy as np

    names = case["nodes"]
    cp = {c["var"]: c for c in case["cpds"]}
    # topological order from the edges
    par = {v: list(cp[v]["parents"]) for v in names}
    order, left = [], list(names)
    while left:
        for v in left:
            if all(p in order for p in par[v]):
                order.append(v)
                left.remove(v)
                break
    mean = {}
    for v in order:
        mean[v] = cp[v]["intercept"] + sum(b * mean[p] for b, p in zip(cp[v]["coefs"], cp[v]["parents"]))
    n = len(names)
    idx = {v: i for i, v in enumerate(names)}
    B = np.zeros((n, n))
    Om = np.zeros((n, n))
    for v in names:
        for b, p in zip(cp[v]["coefs"], cp[v]["parents"]):
            B[idx[v], idx[p]] = b  # X = B X + e
        Om[idx[v], idx[v]] = cp[v]["variance"]
    inv = np.linalg.inv(np.eye(n) - B)
    cov1 = inv @ Om @ inv.T
    # recursive rule in topological order
    cov2 = np.zeros((n, n))
    for i, v in enumerate(order):
        for u in order[:i]:
            c = sum(b * cov2[idx[p], idx[u]] for b, p in zip(cp[v]["coefs"], cp[v]["parents"]))
            cov2[idx[v], idx[u]] = cov2[idx[u], idx[v]] = c
        cov2[idx[v], idx[v]] = cp[v]["variance"] + sum(
            b1 * b2 * cov2[idx[p1], idx[p2]] for b1, p1 in zip(cp[v]["coefs"], cp[v]["parents"]) for b2, p2 in zip(cp[v]["coefs"], cp[v]["parents"]))
    if not np.allclose(cov1, cov2, atol=1e-9, rtol=1e-9):
        raise AssertionError("oracle self-check: the two covariance derivations disagree")
    return np.array([mean[v] for v in names]), cov1


def build_lgbn(case):
    from pgmpy.factors.continuous import LinearGaussianCPD
    from pgmpy.models import LinearGaussianBayesianNetwork

    m = LinearGaussianBayesianNetwork()
    m.add_nodes_from(case["nodes"])
    m.add_edges_from([tuple(e) for e in case["edges"]])
    for c in case["cpds"]:
        m.add_cpds(LinearGaussianCPD(c["var"], [c["intercept"]] + list(c["coefs"]), c["variance"], list(c["parents"])))
    return m


def check_lgbn(case, out):
    import networkx as nx
    import numpy as np
    import pandas as pd

    names = case["nodes"]
    mu, cov = ref_joint(case)
    idx = {v: i for i, v in enumerate(names)}
    par = {c["var"]: c["parents"] for c in case["cpds"]}
    out.nontrivial = len(names) >= 3 and any(len(p) >= 2 for p in par.values())
    out.cls(f"n{len(names)}", f"missing{len(case['missing'])}")
    model = out.call("build", build_lgbn, case)
    if model is RAISED:
        return
    out.call("check_model", model.check_model)
    out.evals = 0
    r = out.call("to_joint_gaussian", model.to_joint_gaussian)
    out.evals += 1
    order = list(nx.topological_sort(model))
    if r is not RAISED:
        m2, c2 = r
        m2 = np.asarray(m2, dtype=float).ravel()
        c2 = np.asarray(c2, dtype=float)
        if m2.shape != (len(names),) or c2.shape != (len(names), len(names)):
            out.fail("to_joint_gaussian:shape", f"{m2.shape} {c2.shape}")
        else:
            want_m = np.array([mu[idx[v]] for v in order])
            want_c = cov[np.ix_([idx[v] for v in order], [idx[v] for v in order])]
            if np.max(np.abs(m2 - want_m)) > 2e-7 * max(1.0, np.max(np.abs(want_m))):
                out.fail("to_joint_gaussian:mean", f"order={order} got={m2.tolist()} want={want_m.tolist()}")
            elif np.max(np.abs(c2 - want_c)) > 2e-7 * max(1.0, np.max(np.abs(want_c))):
                out.fail("to_joint_gaussian:covariance", f"order={order} got={c2.tolist()} want={want_c.tolist()}")
    # predict
    if case["missing"] and case["observed"]:
        df = pd.DataFrame(case["rows"], columns=case["observed"])
        r = out.call("predict", model.predict, df)
        out.evals += 1
        if r is not RAISED:
            vs, mu_c, cov_c = r
            mi = [idx[v] for v in case["missing"]]
            oi = [idx[v] for v in case["observed"]]
            S_aa, S_ab, S_bb = cov[np.ix_(mi, mi)], cov[np.ix_(mi, oi)], cov[np.ix_(oi, oi)]
            if np.linalg.cond(S_bb) < 1e10:
                K = S_ab @ np.linalg.inv(S_bb)
                want_cov = S_aa - K @ S_ab.T
                if set(vs) != set(case["missing"]) or len(vs) != len(case["missing"]):
                    out.fail("predict:variables", f"{vs} vs {case['missing']}")
                else:
                    perm = [case["missing"].index(v) for v in vs]
                    mu_c = np.asarray(mu_c, dtype=float).reshape(len(case["rows"]), -1)
                    cov_c = np.atleast_2d(np.asarray(cov_c, dtype=float))
                    scale = max(1.0, float(np.max(np.abs(cov))))
                    # the library rounds the joint mean and covariance to 8 decimals by design (to_joint_gaussian): an entry
                    # may be off by 5e-9, and the conditional formulas amplify that by about |S_bb^-1| (1 + |K|) per observed
                    # variable; the tolerance follows that bound (with a factor 4), not a fixed number
                    amp = max(1.0, len(oi) * float(np.max(np.sum(np.abs(np.linalg.inv(S_bb)), axis=1))) * (1.0 + float(np.max(np.sum(np.abs(K), axis=1)))))
                    for r_i, row in enumerate(case["rows"]):
                        want_mu = mu[mi] + K @ (np.array(row) - mu[oi])
                        tol_mu = 1e-6 * max(1.0, np.max(np.abs(want_mu))) + 2e-8 * amp * max(1.0, float(np.max(np.abs(np.array(row) - mu[oi]))))
                        if mu_c.shape[1] != len(vs) or np.max(np.abs(mu_c[r_i] - want_mu[perm])) > tol_mu:
                            out.fail("predict:conditional_mean" + ("[several_missing]" if len(vs) > 1 else ""), f"missing={vs} row={row} got={mu_c[r_i].tolist()} want={want_mu[perm].tolist()}")
                            break
                    wc = want_cov[np.ix_(perm, perm)]
                    if cov_c.shape != wc.shape or np.max(np.abs(cov_c - wc)) > 1e-6 * scale + 2e-8 * amp * max(1.0, float(np.max(np.abs(S_ab)))):
                        out.fail("predict:conditional_covariance" + ("[several_missing]" if len(vs) > 1 else ""), f"missing={vs} got={cov_c.tolist()} want={wc.tolist()}")
                    if len(case["missing"]) >= 2:
                        out.nontrivial = True
    # fit: least squares with intercept on data generated from the model itself (deterministic pseudo-noise)
    n_rows = case["fit_rows"]
    rng = np.random.default_rng(case["seed"])
    L = np.linalg.cholesky(cov + 1e-12 * np.eye(len(names)))
    data = mu + rng.standard_normal((n_rows, len(names))) @ L.T
    df = pd.DataFrame(data, columns=names)
    imode = ["default", "reversed_labels", "offset", "default"][case["seed"] % 4]  # row labels other than 0..n-1: rows stay rows
    if imode == "reversed_labels":
        df.index = list(range(len(df) - 1, -1, -1))
    elif imode == "offset":
        df.index = [100 + 3 * i for i in range(len(df))]
    out.cls(f"fit_index_{imode}")
    m2 = out.call("build", build_lgbn, dict(case, cpds=[]))
    if m2 is not RAISED and np.linalg.matrix_rank(np.column_stack([data, np.ones(n_rows)])) == len(names) + 1:
        r = out.call("fit", m2.fit, df)
        out.evals += 1
        if r is not RAISED:
            for v in names:
                cpd = m2.get_cpds(v)
                if cpd is None:
                    out.fail("fit:cpd_missing", v)
                    continue
                ps = list(cpd.evidence)
                if set(ps) != set(par[v]):
                    out.fail("fit:parents", f"{v}: {ps} vs {par[v]}")
                    continue
                X = np.column_stack([np.ones(n_rows)] + [data[:, idx[p]] for p in ps])
                beta, *_ = np.linalg.lstsq(X, data[:, idx[v]], rcond=None)
                rss = float(np.sum((data[:, idx[v]] - X @ beta) ** 2))
                got = np.asarray(cpd.mean, dtype=float).ravel()
                if got.shape != beta.shape or np.max(np.abs(got - beta)) > 1e-6 * max(1.0, np.max(np.abs(beta))):
                    out.fail("fit:coefficients", f"{v} | {ps}: got {got.tolist()} want {beta.tolist()}")
                    continue
                p = len(ps)
                cands = [rss / n_rows, rss / (n_rows - 1), rss / max(1, n_rows - p - 1)]
                if not any(abs(float(cpd.variance) - c) <= 1e-6 * max(1.0, c) for c in cands):
                    out.fail("fit:residual_variance", f"{v}: got {float(cpd.variance)!r}, candidates {cands}")
    out.sample = {"nodes": names, "edges": case["edges"], "missing": case["missing"]}


def check_simulate(case, out):
    import networkx as nx
    import numpy as np

    names = case["nodes"]
    mu, cov = ref_joint(case)
    idx = {v: i for i, v in enumerate(names)}
    model = out.call("build", build_lgbn, case)
    if model is RAISED:
        return
    N = 20000
    df = out.call("simulate", model.simulate, n=N, seed=case["seed"])
    if df is RAISED:
        return
    out.nontrivial = len(names) >= 2
    if len(df) != N or set(df.columns) != set(names):
        out.fail("simulate:shape", f"{df.shape} {list(df.columns)}")
        return
    X = df[names].to_numpy()
    # mean: |xbar - mu| <= z * sd / sqrt(N) with z = 6.2 (two-sided tail ~ 5e-10)
    sd = np.sqrt(np.diag(cov))
    if np.any(np.abs(X.mean(axis=0) - mu) > 6.2 * sd / math.sqrt(N) + 1e-9):
        out.fail("simulate:mean", f"{X.mean(axis=0).tolist()} vs {mu.tolist()}")
    S = np.cov(X.T).reshape(len(names), len(names))
    # covariance entries: sd of s_ij is about sqrt((s_ii s_jj + s_ij^2)/N)
    tol = 6.5 * np.sqrt((np.outer(np.diag(cov), np.diag(cov)) + cov**2) / N) + 1e-9
    if np.any(np.abs(S - cov) > tol):
        out.fail("simulate:covariance", f"max dev {float(np.max(np.abs(S - cov)))}")
    df2 = out.call("simulate[repeat]", model.simulate, n=50, seed=case["seed"])
    df3 = out.call("simulate[repeat]", model.simulate, n=50, seed=case["seed"])
    if df2 is not RAISED and df3 is not RAISED and not df2.equals(df3):
        out.fail("simulate:not_reproducible_with_seed", "")


# ---------------------------------------------------------------------------------------------- GaussianDistribution
@st.composite
def gd_case(draw):
    n = draw(st.integers(1, 5))
    names = list(draw(st.permutations(NAMES)))[:n]
    A = [[draw(st.integers(-3, 3)) / 2.0 for _ in range(n)] for _ in range(n)]
    mean = [draw(st.sampled_from([0.0, 1.0, -2.0, 3.5, -0.5])) for _ in range(n)]
    eps = draw(st.sampled_from([0.1, 0.5, 1.0]))
    sub = [v for v in names if draw(st.booleans())]
    if len(sub) == n:
        sub = sub[:-1]
    vals = [draw(st.sampled_from([-1.0, 0.0, 0.5, 2.0])) for _ in sub]
    pts = [[draw(st.sampled_from([-1.5, 0.0, 0.7, 2.0])) for _ in range(8)] for _ in range(3)]
    # second distribution for the product: overlapping scope
    scope2 = draw(st.sampled_from(["same_scope_other_order", "any", "subset", "any"]))
    if scope2 == "same_scope_other_order":
        names2 = list(draw(st.permutations(names)))
    elif scope2 == "subset":
        names2 = list(draw(st.permutations(names)))[: draw(st.integers(1, n))]
    else:
        names2 = list(draw(st.permutations(NAMES)))[: draw(st.integers(1, 3))]
    m = len(names2)
    A2 = [[draw(st.integers(-3, 3)) / 2.0 for _ in range(m)] for _ in range(m)]
    mean2 = [draw(st.sampled_from([0.0, 1.0, -1.0, 2.0])) for _ in range(m)]
    return {"names": names, "A": A, "mean": mean, "eps": eps, "sub": sub, "vals": vals, "points": pts, "names2": names2, "A2": A2, "mean2": mean2,
            "perm": list(draw(st.permutations(sub)))}


def check_gd(case, out):
    import numpy as np
    from pgmpy.factors.distributions import GaussianDistribution as GD
    from scipy.stats import multivariate_normal as mvn

    names = case["names"]
    n = len(names)
    A = np.array(case["A"]).reshape(n, n)
    cov = A @ A.T + case["eps"] * np.eye(n)
    mu = np.array(case["mean"])
    out.cls(f"n{n}")
    out.evals = 0
    gd = out.call("GaussianDistribution", GD, list(names), mu.tolist(), cov.tolist())
    if gd is RAISED:
        return
    sub = case["sub"]
    keep = [v for v in names if v not in sub]
    ki = [names.index(v) for v in keep]
    si = [names.index(v) for v in sub]
    # marginalize
    if sub and keep:
        for inplace in (False, True):
            g2 = gd.copy()
            r = out.call("marginalize", g2.marginalize, list(case["perm"]), inplace=inplace)
            out.evals += 1
            if r is RAISED:
                continue
            res = g2 if inplace else r
            if res is None or list(res.variables) != keep:
                out.fail("marginalize:variables", f"{None if res is None else res.variables} vs {keep}")
                continue
            if np.max(np.abs(np.asarray(res.mean).ravel() - mu[ki])) > 1e-9 or np.max(np.abs(np.asarray(res.covariance) - cov[np.ix_(ki, ki)])) > 1e-9:
                out.fail("marginalize:values", f"sub={sub}")
            if not inplace and (list(g2.variables) != list(names) or np.max(np.abs(np.asarray(g2.covariance) - cov)) > 0):
                out.fail("marginalize:original_modified", "")
        # reduce
        vals = np.array(case["vals"])
        S_jj, S_ji, S_ii = cov[np.ix_(ki, ki)], cov[np.ix_(ki, si)], cov[np.ix_(si, si)]
        K = S_ji @ np.linalg.inv(S_ii)
        want_mu = mu[ki] + K @ (vals - mu[si])
        want_cov = S_jj - K @ S_ji.T
        order = list(zip(sub, case["vals"]))
        order = [order[sub.index(v)] for v in case["perm"]]
        for inplace in (False, True):
            g2 = gd.copy()
            r = out.call("reduce", g2.reduce, [(v, x) for v, x in order], inplace=inplace)
            out.evals += 1
            if r is RAISED:
                continue
            res = g2 if inplace else r
            if res is None or list(res.variables) != keep:
                out.fail("reduce:variables", f"{None if res is None else res.variables} vs {keep}")
                continue
            if np.max(np.abs(np.asarray(res.mean).ravel() - want_mu)) > 1e-8 * max(1.0, np.max(np.abs(want_mu))) or np.max(np.abs(np.asarray(res.covariance) - want_cov)) > 1e-8 * max(1.0, np.max(np.abs(cov))):
                out.fail("reduce:values", f"sub={order} got mean {np.asarray(res.mean).ravel().tolist()} want {want_mu.tolist()}")
            if not inplace and (list(g2.variables) != list(names) or np.max(np.abs(np.asarray(g2.covariance) - cov)) > 0):
                out.fail("reduce:original_modified", "")
    # canonical form: exp(-1/2 x'Kx + h'x + g) == pdf(x)
    cf = out.call("to_canonical_factor", gd.to_canonical_factor)
    out.evals += 1
    if cf is not RAISED:
        Kc, h, g = np.asarray(cf.K, dtype=float), np.asarray(cf.h, dtype=float).ravel(), float(np.asarray(cf.g).ravel()[0]) if np.ndim(cf.g) else float(cf.g)
        if list(cf.variables) != list(names):
            out.fail("to_canonical_factor:variables", f"{cf.variables}")
        else:
            for p in case["points"]:
                x = np.array(p[:n])
                lhs = -0.5 * x @ Kc @ x + h @ x + g
                rhs = mvn.logpdf(x, mu, cov)
                if abs(lhs - rhs) > 1e-8 * max(1.0, abs(rhs)):
                    out.fail("to_canonical_factor:density", f"log value {lhs!r} vs log pdf {rhs!r} at {x.tolist()}")
                    break
    # the canonical form's own operations against the function exp(-1/2 x'Kx + h'x + g) they are defined on
    if cf is not RAISED and list(cf.variables) == list(names):
        def logval(c, x):
            Kc_ = np.asarray(c.K, dtype=float).reshape(len(x), len(x))
            h_ = np.asarray(c.h, dtype=float).ravel()
            g_ = float(np.asarray(c.g).ravel()[0]) if np.ndim(c.g) else float(c.g)
            return float(-0.5 * x @ Kc_ @ x + h_ @ x + g_)

        def close(a, b):
            return abs(a - b) <= 1e-7 * max(1.0, abs(a), abs(b))

        back = out.call("canonical.to_joint_gaussian", cf.to_joint_gaussian)
        out.evals += 1
        if back is not RAISED:
            if list(back.variables) != list(names) or np.max(np.abs(np.asarray(back.mean, dtype=float).ravel() - mu)) > 1e-7 * max(1.0, np.max(np.abs(mu))) \
                    or np.max(np.abs(np.asarray(back.covariance, dtype=float) - cov)) > 1e-7 * max(1.0, np.max(np.abs(cov))):
                out.fail("canonical.to_joint_gaussian:round_trip", f"{back.variables} mean {np.asarray(back.mean).ravel().tolist()} vs {mu.tolist()}")
        if sub and keep:
            out.cls("canonical_reduce_marginalize")
            vals = np.array(case["vals"])
            order = list(zip(sub, case["vals"]))
            order = [order[sub.index(v)] for v in case["perm"]]
            for inplace in (False, True):
                c2 = cf.copy()
                r = out.call("canonical.reduce", c2.reduce, [(v, x) for v, x in order], inplace=inplace)
                out.evals += 1
                if r is not RAISED:
                    res = c2 if inplace else r
                    if res is None or list(res.variables) != keep:
                        out.fail("canonical.reduce:variables", f"{None if res is None else res.variables} vs {keep}")
                    else:
                        for pnt in case["points"]:
                            xk = np.array(pnt[: len(keep)])
                            full = np.zeros(n)
                            full[ki] = xk
                            full[si] = vals
                            if not close(logval(res, xk), logval(cf, full)):
                                out.fail("canonical.reduce:value", f"log {logval(res, xk)!r} vs {logval(cf, full)!r} reducing {order} in {names}")
                                break
                    if not inplace and (list(c2.variables) != list(names) or np.max(np.abs(np.asarray(c2.K, dtype=float) - np.asarray(cf.K, dtype=float))) > 0):
                        out.fail("canonical.reduce:original_modified", "")
                c2 = cf.copy()
                r = out.call("canonical.marginalize", c2.marginalize, list(case["perm"]), inplace=inplace)
                out.evals += 1
                if r is not RAISED:
                    res = c2 if inplace else r
                    if res is None or list(res.variables) != keep:
                        out.fail("canonical.marginalize:variables", f"{None if res is None else res.variables} vs {keep}")
                    else:
                        # K', h', g' of the marginal density N(mu_keep, cov_keep), compared one by one
                        ck = cov[np.ix_(ki, ki)]
                        wK = np.linalg.inv(ck)
                        wh = wK @ mu[ki]
                        wg = float(-0.5 * mu[ki] @ wK @ mu[ki] - 0.5 * (len(ki) * np.log(2 * np.pi) + np.log(np.linalg.det(ck))))
                        gK = np.asarray(res.K, dtype=float).reshape(len(ki), len(ki))
                        gh = np.asarray(res.h, dtype=float).ravel()
                        gg = float(np.asarray(res.g).ravel()[0]) if np.ndim(res.g) else float(res.g)
                        scale = max(1.0, float(np.max(np.abs(wK))))
                        if np.max(np.abs(gK - wK)) > 1e-7 * scale:
                            out.fail("canonical.marginalize:K", f"summing out {case['perm']} of {names}: K {gK.tolist()} vs {wK.tolist()}")
                        elif np.max(np.abs(gh - wh)) > 1e-7 * max(scale, float(np.max(np.abs(wh)))):
                            out.fail("canonical.marginalize:h", f"summing out {case['perm']} of {names}: h {gh.tolist()} vs {wh.tolist()}")
                        elif not close(gg, wg):
                            out.fail("canonical.marginalize:g", f"summing out {case['perm']} of {names}: g {gg!r} vs {wg!r}")
                    if not inplace and (list(c2.variables) != list(names) or np.max(np.abs(np.asarray(c2.K, dtype=float) - np.asarray(cf.K, dtype=float))) > 0):
                        out.fail("canonical.marginalize:original_modified", "")
        # canonical product / divide: log values add / subtract on the union scope
        names2c = case["names2"]
        mc = len(names2c)
        A2c = np.array(case["A2"]).reshape(mc, mc)
        cov2c = A2c @ A2c.T + case["eps"] * np.eye(mc)
        cf2 = out.call("to_canonical_factor", GD(list(names2c), list(case["mean2"]), cov2c.tolist()).to_canonical_factor)
        if cf2 is not RAISED:
            for opname, sign in (("mul", 1.0), ("truediv", -1.0), ("product", 1.0), ("divide", -1.0)):
                if opname == "mul":
                    r = out.call("canonical[*]", lambda: cf * cf2)
                elif opname == "truediv":
                    r = out.call("canonical[/]", lambda: cf / cf2)
                else:
                    r = out.call(f"canonical.{opname}", getattr(cf.copy(), opname), cf2, inplace=False)
                out.evals += 1
                if r is RAISED:
                    continue
                allc = list(names) + [v for v in names2c if v not in names]
                if r is None or set(r.variables) != set(allc):
                    out.fail(f"canonical.{opname}:variables", f"{None if r is None else r.variables} vs {allc}")
                    continue
                for pnt in case["points"]:
                    xv = dict(zip(allc, pnt[: len(allc)]))
                    want = logval(cf, np.array([xv[v] for v in names])) + sign * logval(cf2, np.array([xv[v] for v in names2c]))
                    got = logval(r, np.array([xv[v] for v in r.variables]))
                    if not close(got, want):
                        out.fail(f"canonical.{opname}:value", f"log {got!r} vs {want!r}; scopes {names} and {names2c}")
                        break
    # call sequence: the precision matrix is cached on first use; after marginalize / reduce the cached matrix must be
    # that of the new distribution
    if sub and keep:
        for opname in ("marginalize", "reduce"):
            for inplace in (False, True):
                g3 = gd.copy()
                if out.call("precision_matrix", lambda: g3.precision_matrix) is RAISED:
                    continue
                if opname == "marginalize":
                    r = out.call("marginalize[after_precision_was_read]", g3.marginalize, list(case["perm"]), inplace=inplace)
                    want_cov3 = cov[np.ix_(ki, ki)]
                else:
                    order3 = list(zip(sub, case["vals"]))
                    order3 = [order3[sub.index(v)] for v in case["perm"]]
                    r = out.call("reduce[after_precision_was_read]", g3.reduce, [(v, x) for v, x in order3], inplace=inplace)
                    S_jj3, S_ji3, S_ii3 = cov[np.ix_(ki, ki)], cov[np.ix_(ki, si)], cov[np.ix_(si, si)]
                    K3 = S_ji3 @ np.linalg.inv(S_ii3)
                    want_cov3 = S_jj3 - K3 @ S_ji3.T
                out.evals += 1
                if r is RAISED:
                    continue
                res3 = g3 if inplace else r
                pm = out.call("precision_matrix[after_" + opname + "]", lambda: res3.precision_matrix)
                if pm is RAISED or pm is None:
                    continue
                wantP = np.linalg.inv(want_cov3)
                if np.asarray(pm).shape != wantP.shape or np.max(np.abs(np.asarray(pm, dtype=float) - wantP)) > 1e-6 * max(1.0, float(np.max(np.abs(wantP)))):
                    out.fail(f"{opname}[after_precision_was_read]:stale_precision_matrix", f"{opname} {case['perm']} of {names} (inplace={inplace}): precision {np.asarray(pm).tolist()} vs {wantP.tolist()}")
    # product: density proportional to the pointwise product
    names2 = case["names2"]
    m = len(names2)
    A2 = np.array(case["A2"]).reshape(m, m)
    cov2 = A2 @ A2.T + case["eps"] * np.eye(m)
    mu2 = np.array(case["mean2"])
    g2 = GD(list(names2), mu2.tolist(), cov2.tolist())
    allv = list(names) + [v for v in names2 if v not in names]
    overlap = bool(set(names) & set(names2))
    out.nontrivial = overlap and list(names) != list(names2)
    if overlap:
        out.cls("overlapping_product_scopes")
    if set(names) == set(names2) and list(names) != list(names2):
        out.cls("product_same_scope_other_order")
    for form in ("mul", "product_copy", "product_inplace"):
        a = gd.copy()
        if form == "mul":
            res = out.call("product[*]", lambda: a * g2)
        elif form == "product_copy":
            res = out.call("product[inplace=False]", a.product, g2, inplace=False)
        else:
            r = out.call("product[inplace=True]", a.product, g2, inplace=True)
            res = a if r is not RAISED else RAISED
        out.evals += 1
        if res is RAISED:
            continue
        if res is None:
            out.fail(f"product[{form}]:returned_none", "")
            continue
        if set(res.variables) != set(allv):
            out.fail(f"product[{form}]:variables" + ("[inplace_result_discarded]" if form == "product_inplace" and list(res.variables) == list(names) else ""), f"{res.variables} vs {allv}")
            continue
        rm, rc = np.asarray(res.mean, dtype=float).ravel(), np.asarray(res.covariance, dtype=float)
        diffs = []
        for p in case["points"]:
            xv = dict(zip(allv, p[: len(allv)]))
            x1 = np.array([xv[v] for v in names])
            x2 = np.array([xv[v] for v in names2])
            x3 = np.array([xv[v] for v in res.variables])
            diffs.append(mvn.logpdf(x1, mu, cov) + mvn.logpdf(x2, mu2, cov2) - mvn.logpdf(x3, rm, rc))
        if max(diffs) - min(diffs) > 1e-7 * max(1.0, max(abs(d) for d in diffs)):
            out.fail(f"product[{form}]:not_proportional_to_pointwise_product", f"log ratios {diffs}")
    out.sample = {"names": names, "sub": sub, "names2": names2}


# ------------------------------------------------------------------------------- LinearGaussianCPD.fit
@st.composite
def cpdfit_case(draw):
    k = draw(st.integers(0, 3))
    parents = list(draw(st.permutations(["A", "B", "C", "D", "E"])))[:k]
    nrow = draw(st.integers(k + 2, 30))
    rows = []
    for r in range(nrow):
        if r <= k:  # the first k+1 rows make the design matrix [1, x] of full column rank by construction
            x = [3.0 if j == r - 1 else 0.0 for j in range(k)]
        else:
            x = [draw(st.integers(-6, 6)) / 2.0 for _ in range(k)]
        y = draw(st.integers(-20, 20)) / 4.0
        rows.append([y] + x)
    cols = ["(Y|X)"] + parents
    order = list(draw(st.permutations(list(range(len(cols))))))
    return {"parents": parents, "rows": rows, "column_order": order, "evidence_order": list(draw(st.permutations(parents)))}


def check_cpdfit(case, out):
    """LinearGaussianCPD.fit(estimator='MLE') = least squares with intercept and the root of the mean squared residual"""
    import numpy as np
    import pandas as pd
    from pgmpy.factors.continuous import LinearGaussianCPD

    parents, ev = case["parents"], case["evidence_order"]
    k = len(parents)
    cols = ["(Y|X)"] + parents
    data = np.array(case["rows"], dtype=float)
    df = pd.DataFrame(data, columns=cols)[[cols[i] for i in case["column_order"]]]
    out.cls(f"parents{k}")
    out.nontrivial = k >= 2 and ev != parents
    cpd = out.call("LinearGaussianCPD", LinearGaussianCPD, "Y", [0.0] * (k + 1), 1.0, list(ev))
    if cpd is RAISED:
        return
    res = out.call("LinearGaussianCPD.fit", cpd.fit, df, states=list(df.columns), estimator="MLE")
    if res is RAISED:
        return
    beta, sigma = res
    y = data[:, 0]
    D = np.column_stack([np.ones(len(y))] + [data[:, 1 + parents.index(p)] for p in ev])
    wb = np.linalg.lstsq(D, y, rcond=None)[0]
    ws = float(np.sqrt(np.mean((y - D @ wb) ** 2)))
    gb = np.asarray(beta, dtype=float).ravel()
    if gb.shape != wb.shape or np.max(np.abs(gb - wb)) > 1e-6 * max(1.0, float(np.max(np.abs(wb)))):
        out.fail("LinearGaussianCPD.fit:coefficients", f"got {gb.tolist()} want {wb.tolist()} (intercept, then {ev})")
    elif not (abs(float(sigma) - ws) <= 1e-6 * max(1.0, ws)) and ws > 1e-6:
        out.fail("LinearGaussianCPD.fit:residual_spread", f"got {float(sigma)!r} want {ws!r}")
    out.sample = {"parents": parents, "evidence_order": ev, "n_rows": len(y)}


THOROUGH_SCALE = 8  # thorough-tier example counts are n["thorough"] x this (one thorough run then takes roughly 5-10 minutes on 16 cores)
SUBCHECKS = [
    Sub("lgbn", check_lgbn, strategy=lambda tier: lg_case(), n={"quick": 150, "thorough": 2500},
        shards={"quick": 6, "thorough": 16}, doc="to_joint_gaussian, predict (conditional mean/covariance), fit (least squares) vs multivariate-normal algebra"),
    Sub("simulate", check_simulate, strategy=lambda tier: lg_case(), n={"quick": 15, "thorough": 150},
        shards={"quick": 2, "thorough": 8}, doc="LGBN.simulate sample mean / covariance within a 1e-9 tail bound; reproducible with seed"),
    Sub("cpd_fit", check_cpdfit, strategy=lambda tier: cpdfit_case(), n={"quick": 100, "thorough": 1500},
        shards={"quick": 2, "thorough": 4}, doc="LinearGaussianCPD.fit (MLE) vs least squares with intercept and root mean squared residual"),
    Sub("gaussian_distribution", check_gd, strategy=lambda tier: gd_case(), n={"quick": 200, "thorough": 3000},
        shards={"quick": 4, "thorough": 8}, doc="GaussianDistribution marginalize / reduce / canonical form / product vs block formulas and densities"),
]
def _quadratic_terms_differ(case):
    """h_j' K_jj h_j differs from h_j' K_jj^-1 h_j for the block that is summed out (the two forms coincide e.g. for zero means)"""
    import numpy as np

    names = case["names"]
    n = len(names)
    A = np.array(case["A"]).reshape(n, n)
    cov = A @ A.T + case["eps"] * np.eye(n)
    K = np.linalg.inv(cov)
    h = K @ np.array(case["mean"])
    j = [names.index(v) for v in case["sub"]]
    if not j:
        return False
    Kjj = K[np.ix_(j, j)]
    a = float(h[j] @ Kjj @ h[j])
    b = float(h[j] @ np.linalg.inv(Kjj) @ h[j])
    return abs(a - b) > 1e-9 * max(1.0, abs(a), abs(b))


PREDICATES = {"marginalized_block_quadratic_terms_differ": _quadratic_terms_differ}
