"""C18 — independence reasoning is sound: equivalence, closure and I-maps."""
import itertools

from hypothesis import strategies as st

from .. import gen
from ..core import RAISED, Sub
from ..oracle import cpdag as OC
from ..oracle import graphoid as OG
from ..oracle.dsep import G
from ..oracle.joint import Joint

RULE = (
    "I-equivalence: every ordered pair of labelled DAGs on n<=4 nodes that share a skeleton plus a deterministic "
    "sample of other pairs (quick) / all 543^2 pairs (thorough), oracle = equal (skeleton, v-structure) signature; "
    "closure: 1-3 seed statements with disjoint multi-variable events over 3-5 variables (contraction premises "
    "built on purpose), oracle = own semi-graphoid fixpoint; joint tables over 2-4 variables of three kinds "
    "(generic, product-form from a random Bayesian network, context-specific), oracle = max |P(x,y,z)P(z) - "
    "P(x,z)P(y,z)|. non-trivial = DAG pair with equal skeleton and different orientation / seed set whose closure "
    "is larger than its decomposition-only closure / table with >= 3 variables; distinct = sha1 of the case."
)
ASSUMPTIONS = [
    "assertion events are pairwise disjoint, non-empty for event1/event2, variable names are strings",
    "numeric independence: deviations <= 1e-10 count as independent, >= 1e-3 as dependent; tables whose largest "
    "deviation falls in between are not judged (the library's documented tolerance is atol=1e-8, rtol=1e-5)",
    "check_independence is judged for single variables X, Y (the property speaks of two variables)",
]
EXHAUSTIVE = {"thorough": "all ordered pairs of labelled DAGs on 4 nodes for is_iequivalent"}

LABELS = ["A", "B", "C", "D", "E"]


# ------------------------------------------------------------------------------------------- I-equivalence
def _enum_pairs(tier):
    n = 4
    dags = gen.all_dags(n)
    sigs = [OC.signature(n, e) for e in dags]
    if tier == "thorough":
        total = len(dags)  # a case = one DAG against all others

        def it(lo, hi):
            for i in range(lo, hi):
                yield {"n": n, "a": [list(e) for e in dags[i]], "others": "all", "i": i}

        return total, it
    by_skel = {}
    for i, s in enumerate(sigs):
        by_skel.setdefault(s[0], []).append(i)

    def it(lo, hi):
        for i in range(lo, hi):
            same = by_skel[sigs[i][0]]
            other = [(i * 37 + k * 101) % len(dags) for k in range(40)]
            yield {"n": n, "a": [list(e) for e in dags[i]], "others": sorted(set(same + other)), "i": i}

    return len(dags), it


def _mk_dag(n, edges, rot=0):
    from pgmpy.base import DAG

    g = DAG()
    order = list(range(n))
    order = order[rot % n :] + order[: rot % n]
    g.add_nodes_from([LABELS[k] for k in order])
    es = [(LABELS[u], LABELS[v]) for u, v in edges]
    if rot % 2:
        es = list(reversed(es))
    g.add_edges_from(es)
    return g


def check_iequiv(case, out):
    n = case["n"]
    dags = gen.all_dags(n)
    a = tuple(tuple(e) for e in case["a"])
    sa = OC.signature(n, a)
    ga = out.call("build", _mk_dag, n, a, 0)
    if ga is RAISED:
        return
    others = range(len(dags)) if case["others"] == "all" else case["others"]
    out.evals = 0
    # the immoralities the library lists are the parent pairs of the reference v-structures
    imm = out.call("get_immoralities", ga.get_immoralities)
    out.evals += 1
    if imm is not RAISED:
        want_imm = {tuple(sorted((LABELS[x], LABELS[y]))) for (ab, _c) in sa[1] for x, y in [tuple(ab)]}
        if {tuple(sorted(p)) for p in imm} != want_imm:
            out.fail("get_immoralities:mismatch", f"a={list(a)} got={sorted(imm)} want={sorted(want_imm)}")
    for j in others:
        b = dags[j]
        sb = OC.signature(n, b)
        want = sa == sb
        gb = _mk_dag(n, b, j)
        got = out.call("is_iequivalent", ga.is_iequivalent, gb)
        out.evals += 1
        if got is RAISED:
            continue
        if sa[0] == sb[0] and a != b:
            out.nontrivial = True
            out.cls("same_skeleton_pair")
        if bool(got) != want:
            kind = "false_positive" if got else "false_negative"
            out.fail(f"is_iequivalent:{kind}", f"a={list(a)} b={list(b)} got={got} want={want}")
    # the d-separation formulation must agree with the signature (oracle self-consistency, cheap spot check)
    out.sample = {"a": case["a"], "n_others": len(list(others))}


# ------------------------------------------------------------------------------------------- closure
@st.composite
def statement(draw, V):
    """disjoint (A, B, C) with A, B non-empty"""
    k = len(V)
    while True:
        assign = [draw(st.integers(0, 3)) for _ in range(k)]
        if 1 in assign and 2 in assign:
            break
        i, j = draw(st.permutations(range(k)))[:2]
        assign[i], assign[j] = 1, 2
        break
    A = [v for v, a in zip(V, assign) if a == 1]
    B = [v for v, a in zip(V, assign) if a == 2]
    C = [v for v, a in zip(V, assign) if a == 3]
    return [A, B, C]


@st.composite
def closure_case(draw):
    k = draw(st.sampled_from([3, 3, 4, 4, 4, 5]))
    V = LABELS[:k]
    seeds = [draw(statement(V))]
    mode = draw(st.sampled_from(["random", "contraction", "contraction_extra", "single"]))
    if mode == "random":
        for _ in range(draw(st.integers(1, 2))):
            seeds.append(draw(statement(V)))
    elif mode in ("contraction", "contraction_extra"):
        A, B, C = seeds[0]
        rest = [v for v in V if v not in A + B + C]
        if rest:
            D = [rest[0]]
            extra = rest[1:2] if mode == "contraction_extra" else []
            # (A _|_ B | C) & (A _|_ D | C u B [u extra])
            seeds.append([A, D, C + B + extra])
    other = [draw(statement(V)) for _ in range(draw(st.integers(1, 2)))]
    return {"vars": V, "seeds": seeds, "other": other, "mode": mode}


def _to_ind(stmts):
    from pgmpy.independencies import Independencies

    return Independencies(*[[list(a), list(b), list(c)] for a, b, c in stmts])


def _canon_set(ind):
    return {OG.canon(a.event1, a.event2, a.event3) for a in ind.get_assertions()}


def _fmt(t):
    (ab, c) = t
    ab = sorted(sorted(x) for x in ab)
    return f"({','.join(ab[0])} _|_ {','.join(ab[1]) if len(ab) > 1 else '?'} | {','.join(sorted(c))})"


def check_closure(case, out):
    from pgmpy.independencies import IndependenceAssertion

    seeds = [OG.canon(a, b, c) for a, b, c in case["seeds"]]
    want = OG.closure(seeds)
    decomp_only = OG.closure([s for s in seeds][:1]) if len(seeds) > 1 else set()
    out.nontrivial = len(seeds) > 1 and len(want) > len(OG.closure(seeds[:1]) | OG.closure(seeds[1:]))
    out.cls(f"mode_{case['mode']}", f"k{len(case['vars'])}")
    if out.nontrivial:
        out.cls("contraction_fires")
    ind = out.call("build", _to_ind, case["seeds"])
    if ind is RAISED:
        return
    out.evals = 0
    loose = OG.closure(seeds, loose=True)
    if loose != want:
        out.cls("loose_contraction_reachable")
    cl = out.call("closure", ind.closure)
    out.evals += 1
    if cl is not RAISED:
        got = _canon_set(cl)
        if got - want:
            ex = sorted(got - want, key=_fmt)[0]
            lab = "closure:unsound[loose_contraction]" if (got - want) <= loose else "closure:unsound"
            out.fail(lab, f"seeds={case['seeds']} derives {_fmt(ex)} which the semi-graphoid axioms do not give")
        if want - got:
            ex = sorted(want - got, key=_fmt)[0]
            out.fail("closure:incomplete", f"seeds={case['seeds']} misses {_fmt(ex)}")
    # entails / is_equivalent against the reference closure
    other = [OG.canon(a, b, c) for a, b, c in case["other"]]
    oind = _to_ind(case["other"])
    e = out.call("entails", ind.entails, oind)
    out.evals += 1
    if e is not RAISED and bool(e) != all(t in want for t in other):
        if e:
            lab = "entails:false_positive[loose_contraction]" if all(t in loose for t in other) else "entails:false_positive"
        else:
            lab = "entails:false_negative"
        out.fail(lab, f"seeds={case['seeds']} other={case['other']} got={e}")
    # something that is entailed by construction: a subset of the reference closure
    sub = sorted(want, key=_fmt)[:: max(1, len(want) // 3)][:3]
    sind = _to_ind([(sorted(list(ab)[0]), sorted(list(ab)[1]), sorted(c)) for ab, c in sub])
    e = out.call("entails", ind.entails, sind)
    out.evals += 1
    if e is not RAISED and not e:
        out.fail("entails:misses_derivable", f"seeds={case['seeds']} should entail {[_fmt(t) for t in sub]}")
    owant = OG.closure(other)
    eq_want = all(t in want for t in other) and all(t in owant for t in seeds)
    q = out.call("is_equivalent", ind.is_equivalent, oind)
    out.evals += 1
    if q is not RAISED and bool(q) != eq_want:
        if q:
            oloose = OG.closure(other, loose=True)
            ok = all(t in loose for t in other) and all(t in oloose for t in seeds)
            lab = "is_equivalent:false_positive[loose_contraction]" if ok else "is_equivalent:false_positive"
        else:
            lab = "is_equivalent:false_negative"
        out.fail(lab, f"seeds={case['seeds']} other={case['other']} got={q} want={eq_want}")
    # == / hash of assertions: symmetric statements are the same statement
    for a, b, c in case["seeds"]:
        x = IndependenceAssertion(a, b, c)
        y = IndependenceAssertion(b, a, list(reversed(c)))
        if not (x == y) or hash(x) != hash(y):
            out.fail("assertion_eq:symmetry", f"{a} {b} {c}")
        if c:
            z = IndependenceAssertion(a, b, c[:-1])
            if x == z:
                out.fail("assertion_eq:ignores_condition", f"{a} {b} {c}")
    i1 = _to_ind(case["seeds"])
    i2 = _to_ind([(b, a, c) for a, b, c in reversed(case["seeds"])])
    if not (i1 == i2) or (i1 != i2):
        out.fail("independencies_eq:symmetry_or_order", f"{case['seeds']}")
    if set(seeds) != set(other) and (i1 == oind):
        out.fail("independencies_eq:different_sets_equal", f"{case['seeds']} vs {case['other']}")
    out.sample = {"seeds": case["seeds"], "other": case["other"]}


# ------------------------------------------------------------------------------------------- joint tables
@st.composite
def jpd_case(draw):
    kind = draw(st.sampled_from(["generic", "product", "product", "context", "parity"]))
    if kind == "parity":
        # x3 = x1 xor x2 (noisy): pairwise independent, jointly dependent
        e = draw(st.sampled_from([0.0, 0.125, 0.25]))
        vals = [0.25 * ((1 - e) if (a ^ b) == c else e) for a in (0, 1) for b in (0, 1) for c in (0, 1)]
        out = {"kind": kind, "vars": LABELS[:3], "card": [2, 2, 2], "values": vals, "bn": None}
    elif kind == "product":
        spec = draw(gen.bn_spec(min_nodes=2, max_nodes=4, name_kinds=("str",), state_kinds=("range",), min_card=2, max_card=3,
                                col_kinds=("dense", "dense", "zeros", "uniform")))
        nodes = spec["nodes"]
        J = Joint.from_bn(spec)
        cards = spec["card"]
        table = [J.table[a] for a in itertools.product(*[range(k) for k in cards])]
        out = {"kind": kind, "vars": nodes, "card": cards, "values": table, "bn": spec}
    else:
        n = draw(st.integers(2, 4))
        nodes = LABELS[:n]
        cards = [draw(st.integers(2, 3)) for _ in range(n)]
        cells = 1
        for k in cards:
            cells *= k
        if kind == "generic":
            w = [draw(st.integers(1, 50)) for _ in range(cells)]
        else:
            # X=nodes[0], Y=nodes[1] independent given Z=last var == 0 only (needs n >= 3; else generic)
            w = [draw(st.integers(1, 50)) for _ in range(cells)]
            if n >= 3:
                px = [draw(st.integers(1, 9)) for _ in range(cards[0])]
                py = [draw(st.integers(1, 9)) for _ in range(cards[1])]
                allidx = list(itertools.product(*[range(k) for k in cards]))
                for pos, a in enumerate(allidx):
                    if a[-1] == 0 and all(x == 0 for x in a[2:-1]):
                        w[pos] = px[a[0]] * py[a[1]]
        s = float(sum(w))
        out = {"kind": kind, "vars": nodes, "card": cards, "values": [x / s for x in w], "bn": None}
    out["order"] = list(draw(st.permutations(out["vars"])))
    return out


class Table:
    def __init__(self, vars_, card, values):
        self.vars = list(vars_)
        self.card = list(card)
        self.p = {}
        for pos, a in enumerate(itertools.product(*[range(k) for k in card])):
            self.p[a] = values[pos]
        self.idx = {v: i for i, v in enumerate(self.vars)}

    def marg(self, vs):
        ii = [self.idx[v] for v in vs]
        m = {}
        for a, p in self.p.items():
            k = tuple(a[i] for i in ii)
            m[k] = m.get(k, 0.0) + p
        return m

    def ci_dev(self, X, Y, Z):
        """max over assignments of |P(x,y,z)P(z) - P(x,z)P(y,z)| for variable *sets* X, Y, Z."""
        X, Y, Z = list(X), list(Y), list(Z)
        pxyz = self.marg(X + Y + Z)
        pz = self.marg(Z)
        pxz = self.marg(X + Z)
        pyz = self.marg(Y + Z)
        dev = 0.0
        nx, ny = len(X), len(Y)
        for k, p in pxyz.items():
            x, y, z = k[:nx], k[nx : nx + ny], k[nx + ny :]
            dev = max(dev, abs(p * pz[z] - pxz[x + z] * pyz[y + z]))
        return dev


IND, DEP = 1e-10, 1e-3


def _false_independence(T, V, edges):
    """largest violated global-Markov statement x _|_ (everything d-separated from x by Z) | Z, or None."""
    g = G(V, edges)  # variables missing from the graph count as isolated nodes
    bad = None
    for x in V:
        rest = [v for v in V if v != x]
        for r in range(len(rest) + 1):
            for Z in itertools.combinations(rest, r):
                sep = [y for y in rest if y not in Z and y not in g.reachable(x, Z)]
                if not sep:
                    continue
                dev = T.ci_dev([x], sep, Z)
                if dev >= DEP and (bad is None or dev > bad[0]):
                    bad = (dev, x, sep, Z)
    return bad


def check_jpd(case, out):
    from pgmpy.factors.discrete import JointProbabilityDistribution as JPD

    V, card, vals = case["vars"], case["card"], case["values"]
    T = Table(V, card, vals)
    out.nontrivial = len(V) >= 3
    out.cls(f"kind_{case['kind']}", f"n{len(V)}")
    jpd = out.call("JPD", JPD, V, card, vals)
    if jpd is RAISED:
        return
    out.evals = 0
    # (a)/(b) pairwise checks
    for x, y in itertools.permutations(V, 2):
        rest = [v for v in V if v not in (x, y)]
        for r in range(len(rest) + 1):
            for Z in itertools.combinations(rest, r):
                dev = T.ci_dev([x], [y], Z)
                if IND < dev < DEP:
                    out.cls("ambiguous_deviation_skipped")
                    continue
                want = dev <= IND
                if want:
                    out.cls("exact_ci_holds")
                if Z:
                    got = out.call("check_independence[cond]", jpd.check_independence, [x], [y], list(Z), condition_random_variable=True)
                else:
                    got = out.call("check_independence[marg]", jpd.check_independence, [x], [y])
                out.evals += 1
                if got is not RAISED and bool(got) != want:
                    out.fail(f"check_independence:{'false_positive' if got else 'false_negative'}", f"{x} _|_ {y} | {Z}: dev={dev:.3g} got={got} vars={V} card={card} values={vals}")
    # (a'') context form: x independent of y given Z = z for one given state z (event3 as (variable, state) pairs)
    for x, y in itertools.combinations(V, 2):
        rest = [v for v in V if v not in (x, y)]
        for zv in rest[:2]:
            for zs in range(card[V.index(zv)]):
                pxyz = T.marg([x, y, zv])
                pz = sum(p for k, p in pxyz.items() if k[2] == zs)
                if pz <= 1e-12:
                    continue  # conditioning on a state of probability 0: nothing is claimed
                pxy = {(k[0], k[1]): p / pz for k, p in pxyz.items() if k[2] == zs}
                px, py = {}, {}
                for (a_, b_), p in pxy.items():
                    px[a_] = px.get(a_, 0.0) + p
                    py[b_] = py.get(b_, 0.0) + p
                dev = max(abs(p - px[a_] * py[b_]) for (a_, b_), p in pxy.items())
                if IND < dev < DEP:
                    continue
                got = out.call("check_independence[context]", jpd.check_independence, [x], [y], [(zv, zs)])
                out.evals += 1
                if dev <= IND:
                    out.cls("context_specific_ci_holds")
                if got is not RAISED and bool(got) != (dev <= IND):
                    out.fail(f"check_independence[context]:{'false_positive' if got else 'false_negative'}", f"{x} _|_ {y} | {zv}={zs}: dev={dev:.3g} got={got} vars={V} card={card} values={vals}")
    # (a') set-valued events: x against all remaining variables jointly
    for x in V:
        Y = [v for v in V if v != x]
        if len(Y) < 2:
            continue
        for Z in ([], Y[-1:]):
            Ys = [v for v in Y if v not in Z]
            if len(Ys) < 2:
                continue
            dev = T.ci_dev([x], Ys, Z)
            if IND < dev < DEP:
                continue
            if Z:
                got = out.call("check_independence[set]", jpd.check_independence, [x], list(Ys), list(Z), condition_random_variable=True)
            else:
                got = out.call("check_independence[set]", jpd.check_independence, [x], list(Ys))
            out.evals += 1
            if got is not RAISED and bool(got) != (dev <= IND):
                out.fail(f"check_independence[set]:{'false_positive' if got else 'false_negative'}", f"{x} _|_ {Ys} | {Z}: dev={dev:.3g} got={got} vars={V} card={card} values={vals}")
    # (c) marginal independencies listing
    gi = out.call("get_independencies", jpd.get_independencies)
    out.evals += 1
    if gi is not RAISED:
        got = {frozenset((next(iter(a.event1)), next(iter(a.event2)))) for a in gi.get_assertions() if len(a.event1) == 1 and len(a.event2) == 1 and not a.event3}
        if len(got) != len(gi.get_assertions()):
            out.fail("jpd.get_independencies:shape", str(gi))
        for x, y in itertools.combinations(V, 2):
            dev = T.ci_dev([x], [y], [])
            if IND < dev < DEP:
                continue
            if (dev <= IND) != (frozenset((x, y)) in got):
                out.fail("jpd.get_independencies:mismatch", f"{x},{y} dev={dev:.3g} listed={frozenset((x, y)) in got}")
    # (d) minimal I-map: every d-separation of the returned graph must hold in the table
    order = case["order"]
    mg = out.call("minimal_imap", jpd.minimal_imap, order)
    out.evals += 1
    if mg is not RAISED:
        edges = [tuple(e) for e in mg.edges()]
        if not set(mg.nodes()) <= set(V):
            out.fail("minimal_imap:foreign_nodes", str(list(mg.nodes())))
        else:
            bad = _false_independence(T, V, edges)
            if bad:
                # known defect class: a variable for which no proper subset of its predecessors screens off the
                # others gets no parents at all.  Repair exactly that and look again: anything left is a
                # different violation.
                repaired = set(edges)
                for i, x in enumerate(order):
                    u = order[:i]
                    if u and not any(T.ci_dev([x], [v for v in u if v not in S], S) <= IND for r in range(len(u)) for S in itertools.combinations(u, r)):
                        repaired |= {(v, x) for v in u}
                lab = "minimal_imap:encodes_false_independence"
                if repaired != set(edges) and not _false_independence(T, V, sorted(repaired)):
                    lab += "[no_proper_subset]"
                out.fail(lab, f"order={order} edges={edges} nodes={list(mg.nodes())}: ({bad[1]} _|_ {bad[2]} | {bad[3]}) dev={bad[0]:.3g}; vars={V} card={card} values={vals}")
    # (e) is_imap for the generating network
    if case["bn"] is not None:
        from ..spec import build_bn

        spec = dict(case["bn"], explicit_states=False)
        bn = out.call("build_bn", build_bn, spec)
        if bn is not RAISED:
            for tag, fn in (("bn.is_imap", lambda: bn.is_imap(jpd)), ("jpd.is_imap", lambda: jpd.is_imap(bn))):
                r = out.call(tag, fn)
                out.evals += 1
                if r is not RAISED and not r:
                    out.fail(f"{tag}:rejects_generating_network", f"bn={case['bn']['edges']}")
            # perturbed table: move mass between two cells
            v2 = list(vals)
            order_ = sorted(range(len(v2)), key=lambda i: -v2[i])
            i, j = order_[0], order_[-1]
            d = min(0.05, v2[i] / 2)
            if d >= 2e-3:
                v2[i] -= d
                v2[j] += d
                jp2 = JPD(V, card, v2)
                for tag, fn in (("bn.is_imap", lambda: bn.is_imap(jp2)), ("jpd.is_imap", lambda: jp2.is_imap(bn))):
                    r = out.call(tag, fn)
                    out.evals += 1
                    if r is not RAISED and r:
                        out.fail(f"{tag}:accepts_perturbed_table", f"bn={case['bn']['edges']} delta={d}")
    out.sample = {"kind": case["kind"], "vars": V, "card": card, "order": order}


THOROUGH_SCALE = 6  # thorough-tier example counts are n["thorough"] x this (one thorough run then takes roughly 5-10 minutes on 16 cores)
SUBCHECKS = [
    Sub("iequivalent", check_iequiv, enumerate=_enum_pairs, shards={"quick": 8, "thorough": 16},
        doc="DAG.is_iequivalent vs equality of (skeleton, v-structures) on pairs of 4-node DAGs"),
    Sub("closure", check_closure, strategy=lambda tier: closure_case(), n={"quick": 120, "thorough": 1500},
        shards={"quick": 8, "thorough": 16}, doc="Independencies.closure / entails / is_equivalent / == vs own semi-graphoid fixpoint"),
    Sub("jpd", check_jpd, strategy=lambda tier: jpd_case(), n={"quick": 120, "thorough": 1500},
        shards={"quick": 6, "thorough": 16}, doc="JointProbabilityDistribution.check_independence / get_independencies / minimal_imap / is_imap vs numeric conditional independence"),
]
PREDICATES = {}
