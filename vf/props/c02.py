"""C02 — junction-tree belief propagation is exact and calibrated."""
import itertools

from hypothesis import strategies as st

from .. import gen
from ..core import RAISED, Sub
from ..oracle.joint import Joint, compare_named
from ..spec import build_bn, build_fg, build_jt, build_mn, factor_to_named
from .c01 import _virtual_cpds

RULE = (
    "cases = connected models of four kinds (Bayesian network with connected moral graph; Markov network; "
    "hand-built factor graph; hand-assembled clique tree satisfying running intersection by construction), 2-6 "
    "variables, cards 1-3, all state-name kinds, cycles/trees/dense shapes, duplicate factors (MN); for each: "
    "calibrate and max_calibrate beliefs vs brute-force (max-)marginals of the factor product, sepset agreement, "
    "then BeliefPropagation.query with evidence by state name (and virtual evidence for BNs) vs the brute-force "
    "conditional and vs VariableElimination; plus BeliefPropagationWithMessagePassing.query on generated loop-free "
    "factor graphs (1-7 variables, unary/pairwise/ternary factors, hard evidence by state number, virtual evidence) "
    "vs the brute-force conditional. non-trivial = the clique tree has >= 2 cliques and (evidence is non-empty or "
    "the query spans two cliques) / >= 3 variables, >= 2 factors and evidence (message passing); distinct = sha1 of "
    "the case."
)
ASSUMPTIONS = [
    "message passing engine: loop-free factor graphs only (its documentation says so), default integer state names "
    "(its evidence is documented as the observed state *number*)",
    "the interaction graph is connected by construction (the library rejects disconnected clique trees by design)",
    "evidence has positive probability (projected from an assignment in the joint's support)",
    "beliefs are compared after normalisation (proportionality), tolerance 1e-9",
    "hand-built factor graphs contain no two equal factors (factor nodes are keyed by factor equality, the library rejects such graphs)",
]


@st.composite
def model_case(draw, kinds=("bn", "mn", "fg", "jt")):
    kind = draw(st.sampled_from(list(kinds)))
    if kind == "bn":
        spec = draw(gen.bn_spec(min_nodes=2, max_nodes=6, connected=True))
        J = Joint.from_bn(spec)
    elif kind == "mn":
        spec = draw(gen.mn_spec(min_nodes=2, max_nodes=6, connected=True))
        J = Joint.from_factors(spec["nodes"], spec["states"], spec["factors"])
    elif kind == "fg":
        spec = draw(gen.mn_spec(min_nodes=2, max_nodes=5, connected=True, duplicates=False))
        spec["factors"] = gen.drop_equal_factors(spec)
        J = Joint.from_factors(spec["nodes"], spec["states"], spec["factors"])
    else:
        spec = draw(gen.jt_spec())
        J = Joint.from_factors(spec["nodes"], spec["states"], spec["factors"])
    nodes = spec["nodes"]
    n = len(nodes)
    support = sorted(J.support_assignments())
    a = support[draw(st.integers(0, len(support) - 1))]
    order = list(draw(st.permutations(nodes)))
    nq = draw(st.integers(1, min(3, n)))
    query = order[:nq]
    rest = order[nq:]
    ne = draw(st.integers(0, min(3, len(rest))))
    evidence = [[v, spec["states"][J.idx[v]][a[J.idx[v]]]] for v in rest[:ne]]
    virtual = []
    if kind == "bn" and spec["name_kind"] in ("str", "word"):
        for v in rest[ne:][: draw(st.integers(0, 1))]:
            k = spec["card"][J.idx[v]]
            lik = [draw(st.sampled_from([0.0, 1.0, 0.5, 0.2])) for _ in range(k)]
            if lik[a[J.idx[v]]] == 0.0:
                lik[a[J.idx[v]]] = 0.7
            virtual.append([v, lik])
    return {"kind": kind, "spec": spec, "query": query, "evidence": evidence, "virtual": virtual, "joint": draw(st.booleans())}


def _joint_of(case):
    spec = case["spec"]
    if case["kind"] == "bn":
        return Joint.from_bn(spec)
    return Joint.from_factors(spec["nodes"], spec["states"], spec["factors"])


def _build(case):
    return {"bn": build_bn, "mn": build_mn, "fg": build_fg, "jt": build_jt}[case["kind"]](case["spec"])


def _positional(phi):
    """{(var, state_index) frozenset: value} — by position, independent of the factor's own state names"""
    import numpy as np

    vals = np.asarray(phi.values, dtype=float)
    out = {}
    for idxs in itertools.product(*[range(int(c)) for c in phi.cardinality]):
        out[frozenset(zip(phi.variables, idxs))] = float(vals[idxs])
    return out


def _ref_positional(J, scope, op):
    vi = [J.idx[v] for v in scope]
    acc = {}
    for a, p in J.table.items():
        k = frozenset((v, a[i]) for v, i in zip(scope, vi))
        if op == "sum":
            acc[k] = acc.get(k, 0.0) + p
        else:
            acc[k] = max(acc.get(k, 0.0), p)
    return acc


def _norm(d, op):
    z = sum(d.values()) if op == "sum" else max(d.values())
    return {k: v / z for k, v in d.items()} if z > 0 else None


def check_calibration(case, out):
    from pgmpy.inference import BeliefPropagation

    J = _joint_of(case)
    spec = case["spec"]
    out.cls(f"kind_{case['kind']}", f"names_{spec['name_kind']}")
    if spec.get("shape"):
        out.cls(f"shape_{spec['shape']}")
    if spec.get("has_duplicate"):
        out.cls("duplicate_factor")
    model = out.call("build", _build, case)
    if model is RAISED:
        return
    out.evals = 0
    for op, meth in (("sum", "calibrate"), ("max", "max_calibrate")):
        bp = out.call("BeliefPropagation", BeliefPropagation, model)
        if bp is RAISED:
            return
        r = out.call(meth, getattr(bp, meth))
        out.evals += 1
        if r is RAISED:
            continue
        cliques = list(bp.get_cliques())
        if len(cliques) >= 2:
            out.nontrivial = True
            out.cls("multi_clique")
        covered = set()
        for cl in cliques:
            covered |= set(cl)
        if covered != set(spec["nodes"]):
            out.fail(f"{meth}:cliques_do_not_cover_variables", f"{cliques}")
            continue
        cb = bp.get_clique_beliefs()
        for cl in cliques:
            b = cb.get(cl)
            if b is None or set(b.variables) != set(cl):
                out.fail(f"{meth}:clique_belief_scope", f"{cl}: {None if b is None else b.variables}")
                continue
            got = _norm(_positional(b), op)
            want = _norm(_ref_positional(J, list(b.variables), op), op)
            if got is None:
                out.fail(f"{meth}:clique_belief_zero", f"{cl}")
                continue
            d = compare_named(got, want)
            if d:
                out.fail(f"{meth}:clique_belief_not_marginal", f"clique={cl} {d}")
            for v in b.variables:
                if list(b.state_names[v]) != list(spec["states"][J.idx[v]]):
                    out.fail(f"{meth}:clique_belief_state_names", f"clique={cl} var={v!r}: {b.state_names[v]} vs {spec['states'][J.idx[v]]}")
                    break
        sb = bp.get_sepset_beliefs()
        for edge in bp.junction_tree.edges():
            key = frozenset(edge)
            s = sb.get(key)
            sep = set(edge[0]) & set(edge[1])
            if s is None or set(s.variables) != sep:
                out.fail(f"{meth}:sepset_belief_scope", f"{edge}")
                continue
            got = _norm(_positional(s), op)
            want = _norm(_ref_positional(J, list(s.variables), op), op)
            d = compare_named(got, want) if got else "zero sepset"
            if d:
                out.fail(f"{meth}:sepset_belief_not_marginal", f"edge={edge} {d}")
            # adjacent cliques agree on the sepset (unnormalised, as stored)
            m1 = getattr(cb[edge[0]], "marginalize" if op == "sum" else "maximize")(list(set(edge[0]) - sep), inplace=False)
            m2 = getattr(cb[edge[1]], "marginalize" if op == "sum" else "maximize")(list(set(edge[1]) - sep), inplace=False)
            d = compare_named(_positional(m1), _positional(m2), rtol=1e-8, atol=1e-12)
            if d:
                out.fail(f"{meth}:adjacent_cliques_disagree", f"edge={edge} {d}")
    out.sample = {"kind": case["kind"], "nodes": spec["nodes"], "card": spec["card"]}


def check_query(case, out):
    from pgmpy.inference import BeliefPropagation, VariableElimination

    J = _joint_of(case)
    spec = case["spec"]
    query = case["query"]
    evidence = {v: s for v, s in case["evidence"]}
    virtual = case["virtual"]
    out.cls(f"kind_{case['kind']}", f"names_{spec['name_kind']}", "joint" if case["joint"] else "per_variable")
    if spec.get("has_duplicate"):
        out.cls("duplicate_factor")
    if any(spec["states"][i] != list(range(spec["card"][i])) for i in range(len(spec["nodes"]))):
        out.cls("nondefault_state_names")
    model = out.call("build", _build, case)
    if model is RAISED:
        return
    bp = out.call("BeliefPropagation", BeliefPropagation, model)
    if bp is RAISED:
        return
    cliques = list(bp.get_cliques())
    in_many = [v for v in evidence if sum(v in c for c in cliques) >= 2]
    spans = not any(set(query) <= set(c) for c in cliques)
    out.nontrivial = len(cliques) >= 2 and (bool(evidence) or spans)
    if in_many:
        out.cls("evidence_var_in_several_cliques")
    if spans:
        out.cls("query_spans_cliques")
    if evidence:
        out.cls("hard_evidence")
    if virtual:
        out.cls("virtual_evidence")
    want = J.marginal(query, evidence, [(v, lik) for v, lik in virtual])
    kw = dict(variables=list(query), evidence=dict(evidence) or None, joint=case["joint"], show_progress=False)
    if virtual:
        kw["virtual_evidence"] = _virtual_cpds(spec, virtual)
    res = out.call("bp.query", bp.query, **kw)
    out.evals = 1
    if res is not RAISED:
        _cmp(out, "bp.query", res, query, want, spec, J, case["joint"], evidence, virtual)
    # a second query on the same engine (state must not leak)
    q2 = list(reversed(query))[:1]
    want2 = J.marginal(q2, evidence)
    res2 = out.call("bp.query[second]", bp.query, variables=list(q2), evidence=dict(evidence) or None, joint=True, show_progress=False)
    out.evals += 1
    if res2 is not RAISED:
        _cmp(out, "bp.query[second]", res2, q2, want2, spec, J, True, evidence, [])
    # a sum query on an engine that was max-calibrated in between must not use the max-marginal beliefs
    bp3 = out.call("BeliefPropagation", BeliefPropagation, model)
    if bp3 is not RAISED and out.call("bp.max_calibrate", bp3.max_calibrate) is not RAISED:
        res3 = out.call("bp.query[after_max_calibrate]", bp3.query, variables=list(q2), evidence=dict(evidence) or None, joint=True, show_progress=False)
        out.evals += 1
        if res3 is not RAISED:
            _cmp(out, "bp.query[after_max_calibrate]", res3, q2, want2, spec, J, True, evidence, [])
    # agreement with variable elimination on the same model
    ve = out.call("VariableElimination", VariableElimination, model)
    if ve is not RAISED and res is not RAISED and case["joint"]:
        kw2 = dict(kw)
        if virtual:
            kw2["virtual_evidence"] = _virtual_cpds(spec, virtual)
        rv = out.call("ve.query", ve.query, **kw2)
        out.evals += 1
        if rv is not RAISED:
            _cmp(out, "ve.query", rv, query, want, spec, J, True, evidence, virtual)
    out.sample = {"kind": case["kind"], "nodes": spec["nodes"], "query": query, "evidence": case["evidence"], "virtual": virtual}


def _cmp(out, tag, res, query, want, spec, J, joint, evidence, virtual):
    if joint:
        if set(res.variables) != set(query):
            out.fail(f"{tag}:scope", f"{res.variables} vs {query}")
            return
        for v in query:
            if list(res.state_names[v]) != list(spec["states"][J.idx[v]]):
                out.fail(f"{tag}:state_names", f"{v!r}: {res.state_names[v]} vs {spec['states'][J.idx[v]]}")
                return
        got = factor_to_named(res)
        z = sum(got.values())
        if z > 0:
            got = {k: v / z for k, v in got.items()}  # Markov-network answers are allowed to be unnormalised
        d = compare_named(got, want)
        if d:
            out.fail(f"{tag}:value", d)
    else:
        if not isinstance(res, dict) or set(res) != set(query):
            out.fail(f"{tag}:keys", f"{type(res)}")
            return
        for v in query:
            f = res[v]
            if list(f.variables) != [v]:
                out.fail(f"{tag}:scope", f"{v!r}: {f.variables}")
                continue
            if list(f.state_names[v]) != list(spec["states"][J.idx[v]]):
                out.fail(f"{tag}:state_names", f"{v!r}: {f.state_names[v]}")
                continue
            got = factor_to_named(f)
            z = sum(got.values())
            if z > 0:
                got = {k: x / z for k, x in got.items()}
            d = compare_named(got, J.marginal([v], evidence, [(x, lik) for x, lik in virtual]))
            if d:
                out.fail(f"{tag}:value", d)


# ------------------------------------------------------------------------- message passing on loop-free factor graphs
@st.composite
def tree_fg_case(draw):
    """a loop-free factor graph grown factor by factor (each new factor touches exactly one existing variable), unary
    factors on top, default state names (this engine takes evidence as state numbers), positive-probability evidence"""
    kind = draw(st.sampled_from(["str", "int"]))
    pool = ["v0", "v1", "v2", "v3", "v4", "v5", "v6"] if kind == "str" else [10, 11, 12, 13, 14, 15, 16]
    nodes = [pool[0]]
    card = {pool[0]: draw(st.sampled_from([2, 2, 3, 1]))}
    factors = []
    nf = draw(st.integers(0, 4))
    for _ in range(nf):
        if len(nodes) >= len(pool):
            break
        anchor = nodes[draw(st.integers(0, len(nodes) - 1))]
        k_new = draw(st.sampled_from([1, 1, 1, 2]))
        new = pool[len(nodes): len(nodes) + k_new]
        if not new:
            break
        for v in new:
            card[v] = draw(st.sampled_from([2, 2, 3, 1]))
            nodes.append(v)
        scope = list(draw(st.permutations([anchor] + new)))
        size = 1
        for v in scope:
            size *= card[v]
        factors.append({"vars": scope, "values": draw(gen.factor_values(size))})
    for v in nodes:
        if draw(st.integers(0, 2)) == 0 or not any(v in f["vars"] for f in factors):
            factors.append({"vars": [v], "values": draw(gen.factor_values(card[v]))})
    spec = {"name_kind": kind, "nodes": nodes, "card": [card[v] for v in nodes], "states": [list(range(card[v])) for v in nodes],
            "factors": factors, "edges": []}
    spec["factors"] = gen.drop_equal_factors(spec)
    for v in nodes:  # a variable whose only factor was dropped as a duplicate still needs one
        if not any(v in f["vars"] for f in spec["factors"]):
            spec["factors"].append({"vars": [v], "values": [1.0 + 0.25 * nodes.index(v) + 0.5 * i for i in range(card[v])]})
    J = Joint.from_factors(spec["nodes"], spec["states"], spec["factors"])
    support = sorted(J.support_assignments())
    if not support:
        # all-zero model: make every factor positive
        for f in spec["factors"]:
            f["values"] = [x if x > 0 else 0.5 for x in f["values"]]
        J = Joint.from_factors(spec["nodes"], spec["states"], spec["factors"])
        support = sorted(J.support_assignments())
    a = support[draw(st.integers(0, len(support) - 1))]
    order = list(draw(st.permutations(nodes)))
    nq = draw(st.integers(1, min(3, len(nodes))))
    query, rest = order[:nq], order[nq:]
    ne = draw(st.integers(0, len(rest)))
    evidence = [[v, a[J.idx[v]]] for v in rest[:ne]]
    virtual = []
    if kind == "str":
        for v in (rest[ne:] + (query if draw(st.integers(0, 3)) == 0 else []))[: draw(st.integers(0, 2))]:
            lik = [draw(st.sampled_from([0.0, 1.0, 0.5, 0.25, 0.9])) for _ in range(card[v])]
            if lik[a[J.idx[v]]] == 0.0:
                lik[a[J.idx[v]]] = draw(st.sampled_from([1.0, 0.3]))
            virtual.append([v, lik])
    return {"spec": spec, "query": query, "evidence": evidence, "virtual": virtual}


def check_message_passing(case, out):
    """BeliefPropagationWithMessagePassing ("factor graphs with no loops") vs the brute-force joint."""
    from pgmpy.inference.ExactInference import BeliefPropagationWithMessagePassing as BPMP

    spec = case["spec"]
    J = Joint.from_factors(spec["nodes"], spec["states"], spec["factors"])
    query = list(case["query"])
    evidence = {v: s for v, s in case["evidence"]}
    virtual = case["virtual"]
    out.nontrivial = len(spec["nodes"]) >= 3 and len(spec["factors"]) >= 2 and bool(evidence or virtual)
    out.cls(f"names_{spec['name_kind']}", f"n{len(spec['nodes'])}")
    if any(len(f["vars"]) >= 3 for f in spec["factors"]):
        out.cls("ternary_factor")
    if any(c == 1 for c in spec["card"]):
        out.cls("card1")
    if evidence:
        out.cls("hard_evidence")
    if virtual:
        out.cls("virtual_evidence")
    fg = out.call("build", build_fg, spec)
    if fg is RAISED:
        return
    eng = out.call("BeliefPropagationWithMessagePassing", BPMP, fg)
    if eng is RAISED:
        return
    kw = dict(variables=list(query), evidence=dict(evidence) or None)
    if virtual:
        kw["virtual_evidence"] = _virtual_cpds(spec, virtual)
    out.evals = 0
    for get_messages in (False, True):
        res = out.call(f"mp.query[get_messages={get_messages}]", eng.query, get_messages=get_messages, **kw)
        out.evals += 1
        if res is RAISED:
            continue
        if get_messages:
            if not isinstance(res, tuple) or len(res) != 2:
                out.fail("mp.query[get_messages=True]:shape", str(type(res)))
                continue
            res = res[0]
        if not isinstance(res, dict) or set(res.keys()) != set(query):
            out.fail("mp.query:keys", f"{list(res) if isinstance(res, dict) else type(res)} vs {query}")
            continue
        for v in query:
            f = res[v]
            want = J.marginal([v], evidence, [(x, lik) for x, lik in virtual])
            if list(f.variables) != [v]:
                out.fail("mp.query:scope", f"{f.variables} for {v}")
                continue
            d = compare_named(factor_to_named(f), want)
            if d:
                out.fail("mp.query:value", d + f" factors={[g['vars'] for g in spec['factors']]} evidence={case['evidence']} virtual={virtual}")
    out.sample = {"nodes": spec["nodes"], "factors": [f["vars"] for f in spec["factors"]], "query": query, "evidence": case["evidence"]}



THOROUGH_SCALE = 5  # thorough-tier example counts are n["thorough"] x this (one thorough run then takes roughly 5-10 minutes on 16 cores)
SUBCHECKS = [
    Sub("calibration", check_calibration, strategy=lambda tier: model_case(), n={"quick": 150, "thorough": 2500},
        shards={"quick": 8, "thorough": 16}, doc="calibrate / max_calibrate: clique and sepset beliefs proportional to (max-)marginals; adjacent cliques agree"),
    Sub("message_passing", check_message_passing, strategy=lambda tier: tree_fg_case(), n={"quick": 250, "thorough": 4000},
        shards={"quick": 4, "thorough": 8}, doc="BeliefPropagationWithMessagePassing.query on loop-free factor graphs (hard evidence by state number, virtual evidence, message dump) vs brute force"),
    Sub("bp_query", check_query, strategy=lambda tier: model_case(), n={"quick": 200, "thorough": 3000},
        shards={"quick": 8, "thorough": 16}, doc="BeliefPropagation.query (evidence by state name, virtual evidence, joint T/F, repeated) vs brute force and vs VariableElimination"),
]
PREDICATES = {}
