"""C04 — factor algebra is pointwise, order-independent and side-effect free."""
import itertools
import math

from hypothesis import strategies as st

from .. import gen
from ..core import RAISED, Sub

RULE = (
    "cases = a universe of <=5 variables with fixed state lists (all name kinds incl. permuted ints, cards 1-3), "
    "1-3 factors over random sub-scopes listed in random axis order with values in {0} u [1e-6,10], and one "
    "operation (product/sum/divide/marginalize/maximize/reduce/normalize/scalar ops/factor_product/"
    "factor_divide/factor_sum_product, operator and method forms, in place and out of place); oracle = "
    "dictionary factors {named assignment: value} with the textbook pointwise definitions. Also operand "
    "immutability, aliasing of results, and equality under axis/state permutation; wide factors (6-12 variables, few "
    "kept axes); FactorSet product / divide / marginalize through the function the set represents (pairwise different, "
    "strictly positive members; variables summed out that occur in one member only). non-trivial = binary op on "
    "overlapping but unequal scopes in different axis orders, or an elimination leaving >= 1 variable; "
    "distinct = sha1 of the case."
)
ASSUMPTIONS = [
    "operands sharing a variable agree on its state list (stated in the property)",
    "division: divisor scope is a subset of the dividend scope; 0/0 = 0 and x/0 = inf as documented",
    "normalize is applied only to factors with a positive total",
    "value comparison: |a-b| <= 1e-9 + 1e-9*max(|a|,|b|); equality tolerance of the library is atol=1e-8, rtol=1e-5, "
    "so 'different' factors differ by >= 1e-3*scale and 'equal' ones by <= 1e-12",
]

OPS = [
    "product", "product", "mul", "factor_product", "sum", "add", "divide", "truediv", "factor_divide",
    "marginalize", "marginalize", "maximize", "reduce", "reduce", "normalize", "scalar_product", "scalar_sum",
    "scalar_mul", "scalar_rmul", "factor_sum_product", "eq",
]


@st.composite
def fcase(draw):
    k = draw(st.integers(1, 5))
    kind, names = draw(gen.node_names(k))
    card, states = [], []
    for _ in range(k):
        c = draw(st.sampled_from([1, 2, 2, 3, 3]))
        _, s = draw(gen.states_for(c))
        card.append(c)
        states.append(s)
    op = draw(st.sampled_from(OPS))
    nf = 1
    if op in ("product", "mul", "sum", "add", "divide", "truediv", "factor_divide"):
        nf = 2
    if op in ("factor_product", "factor_sum_product"):
        nf = draw(st.integers(1, 3))
    factors = []
    for i in range(nf):
        if i == 1 and op in ("divide", "truediv", "factor_divide"):
            base = factors[0]["vars"]
            sub = [v for v in base if draw(st.booleans())] or base[:1]
            vs = list(draw(st.permutations(sub)))
        else:
            mode = draw(st.sampled_from(["any", "any", "same_as_first", "overlap"]))
            if i > 0 and mode == "same_as_first":
                vs = list(draw(st.permutations(factors[0]["vars"])))
            else:
                vs = [v for v in names if draw(st.booleans())]
                if i > 0 and mode == "overlap" and not set(vs) & set(factors[0]["vars"]):
                    vs.append(factors[0]["vars"][0])
                if not vs:
                    vs = [names[draw(st.integers(0, k - 1))]]
                vs = list(draw(st.permutations(vs)))
        n = 1
        for v in vs:
            n *= card[names.index(v)]
        vals = []
        for _ in range(n):
            z = draw(st.integers(0, 9))
            if z == 0:
                vals.append(0.0)
            elif z == 1:
                vals.append(10.0 ** (-draw(st.integers(0, 6))))
            else:
                vals.append(draw(st.integers(1, 1000)) / 100.0)
        factors.append({"vars": vs, "values": vals})
    f0 = factors[0]
    args = {}
    if op in ("marginalize", "maximize"):
        sub = [v for v in f0["vars"] if draw(st.booleans())]
        if not sub or draw(st.integers(0, 5)) == 0:
            sub = list(f0["vars"]) if draw(st.booleans()) else f0["vars"][:1]
        args["vars"] = list(draw(st.permutations(sub)))
    if op == "reduce":
        sub = [v for v in f0["vars"] if draw(st.booleans())] or f0["vars"][:1]
        args["assign"] = [[v, states[names.index(v)][draw(st.integers(0, card[names.index(v)] - 1))]] for v in sub]
    if op.startswith("scalar"):
        args["c"] = draw(st.sampled_from([0, 1, 2, 0.5, 3.25, -1.5]))
    if op == "factor_sum_product":
        allv = []
        for f in factors:
            for v in f["vars"]:
                if v not in allv:
                    allv.append(v)
        outv = [v for v in allv if draw(st.booleans())]
        args["out"] = list(draw(st.permutations(outv)))
    if op == "eq":
        args["perm_axes"] = list(draw(st.permutations(list(range(len(f0["vars"]))))))
        args["perm_states"] = [list(draw(st.permutations(list(range(card[names.index(v)]))))) for v in f0["vars"]]
        args["mutation"] = draw(st.sampled_from(["none", "value", "state_names", "scope", "tiny"]))
        args["pos"] = draw(st.integers(0, len(f0["values"]) - 1))
    return {"name_kind": kind, "names": names, "card": card, "states": states, "factors": factors, "op": op,
            "args": args, "inplace": draw(st.booleans())}


# ---------------------------------------------------------------------------------------------- reference
class Ref:
    """dictionary factor: scope (list) + {frozenset((var,state)): value}"""

    def __init__(self, scope, table):
        self.scope = list(scope)
        self.table = table

    @classmethod
    def from_spec(cls, case, f):
        names, states = case["names"], case["states"]
        sl = [states[names.index(v)] for v in f["vars"]]
        table = {}
        for pos, idxs in enumerate(itertools.product(*[range(len(s)) for s in sl])):
            table[frozenset((v, sl[i][j]) for i, (v, j) in enumerate(zip(f["vars"], idxs)))] = f["values"][pos]
        return cls(f["vars"], table)

    def assignments(self, case, scope):
        names, states = case["names"], case["states"]
        sl = [states[names.index(v)] for v in scope]
        for idxs in itertools.product(*[range(len(s)) for s in sl]):
            yield frozenset((v, sl[i][j]) for i, (v, j) in enumerate(zip(scope, idxs)))

    def restrict(self, key, scope):
        sc = set(scope)
        return frozenset(p for p in key if p[0] in sc)

    def binary(self, other, fn, case):
        scope = list(self.scope) + [v for v in other.scope if v not in self.scope]
        t = {}
        for a in self.assignments(case, scope):
            t[a] = fn(self.table[self.restrict(a, self.scope)], other.table[self.restrict(a, other.scope)])
        return Ref(scope, t)

    def eliminate(self, vars_, fn, case):
        scope = [v for v in self.scope if v not in vars_]
        t = {}
        for a, val in self.table.items():
            k = self.restrict(a, scope)
            t[k] = fn(t[k], val) if k in t else val
        return Ref(scope, t)

    def reduce(self, assign):
        fixed = set((v, s) for v, s in assign)
        gone = {v for v, _ in assign}
        scope = [v for v in self.scope if v not in gone]
        t = {}
        for a, val in self.table.items():
            if fixed <= a:
                t[frozenset(p for p in a if p[0] not in gone)] = val
        return Ref(scope, t)

    def map(self, fn):
        return Ref(self.scope, {k: fn(v) for k, v in self.table.items()})


def _div(a, b):
    if b == 0:
        return 0.0 if a == 0 else math.copysign(math.inf, a)
    return a / b


# ---------------------------------------------------------------------------------------------- helpers
def build(case, f):
    from pgmpy.factors.discrete import DiscreteFactor

    names, card, states = case["names"], case["card"], case["states"]
    return DiscreteFactor(
        list(f["vars"]),
        [card[names.index(v)] for v in f["vars"]],
        list(f["values"]),
        state_names={v: list(states[names.index(v)]) for v in f["vars"]},
    )


def snapshot(phi):
    import numpy as np

    return (
        list(phi.variables),
        [int(c) for c in phi.cardinality],
        np.array(phi.values, dtype=float).copy().tolist() if np.ndim(phi.values) else float(phi.values),
        {k: list(v) for k, v in phi.state_names.items()},
        {k: dict(v) for k, v in phi.name_to_no.items()},
        {k: dict(v) for k, v in phi.no_to_name.items()},
    )


def named(phi):
    import numpy as np

    vars_ = list(phi.variables)
    vals = np.asarray(phi.values, dtype=float)
    names = [phi.state_names[v] for v in vars_]
    out = {}
    for idxs in itertools.product(*[range(len(s)) for s in names]):
        out[frozenset((v, names[i][j]) for i, (v, j) in enumerate(zip(vars_, idxs)))] = float(vals[idxs]) if vars_ else float(vals)
    return out


def _same(a, b):
    if a == b:
        return True
    if math.isinf(a) or math.isinf(b) or math.isnan(a) or math.isnan(b):
        return False
    return abs(a - b) <= 1e-9 + 1e-9 * max(abs(a), abs(b))


def compare(out, tag, phi, ref, case):
    names, card, states = case["names"], case["card"], case["states"]
    if set(phi.variables) != set(ref.scope) or len(phi.variables) != len(ref.scope):
        out.fail(f"{tag}:scope", f"got {phi.variables} want {ref.scope}")
        return
    for v, c in zip(phi.variables, phi.cardinality):
        if int(c) != card[names.index(v)]:
            out.fail(f"{tag}:cardinality", f"{v!r}: {c} vs {card[names.index(v)]}")
            return
        if list(phi.state_names.get(v, [])) != list(states[names.index(v)]):
            out.fail(f"{tag}:state_names", f"{v!r}: {phi.state_names.get(v)} vs {states[names.index(v)]}")
            return
    if set(phi.state_names.keys()) != set(phi.variables):
        out.fail(f"{tag}:stale_state_names", f"{list(phi.state_names.keys())} vs scope {phi.variables}")
    import numpy as np

    shape = tuple(np.shape(phi.values))
    if shape != tuple(len(phi.state_names[v]) for v in phi.variables) or shape != tuple(int(c) for c in phi.cardinality):
        out.fail(f"{tag}:values_shape_disagrees_with_scope", f"values {shape}, variables {phi.variables}, cardinality {list(phi.cardinality)}")
        return
    got = named(phi)
    if set(got) != set(ref.table):
        out.fail(f"{tag}:assignments", "assignment sets differ")
        return
    for k, w in ref.table.items():
        if not _same(got[k], w):
            out.fail(f"{tag}:value", f"at {sorted(map(str, k))}: got {got[k]!r} want {w!r}")
            return


def check_op(case, out):
    from pgmpy.factors.base import factor_divide, factor_product, factor_sum_product

    op, args, inplace = case["op"], case["args"], case["inplace"]
    fs = [out.call("build", build, case, f) for f in case["factors"]]
    if any(f is RAISED for f in fs):
        return
    refs = [Ref.from_spec(case, f) for f in case["factors"]]
    snaps = [snapshot(f) for f in fs]
    f0, r0 = fs[0], refs[0]
    out.cls(f"op_{op}", f"names_{case['name_kind']}")
    res = None
    want = None
    mutated_ok = set()  # indexes of operands that the call is allowed to modify
    if op in ("product", "sum", "divide"):
        g, rg = fs[1], refs[1]
        fn = {"product": lambda a, b: a * b, "sum": lambda a, b: a + b, "divide": _div}[op]
        want = r0.binary(rg, fn, case)
        r = out.call(op, getattr(f0, op), g, inplace=inplace)
        if r is RAISED:
            return
        if inplace:
            if r is not None:
                out.fail(f"{op}:inplace_returned_value", str(type(r)))
            res = f0
            mutated_ok.add(0)
        else:
            res = r
    elif op in ("mul", "add", "truediv"):
        g, rg = fs[1], refs[1]
        fn = {"mul": lambda a, b: a * b, "add": lambda a, b: a + b, "truediv": _div}[op]
        want = r0.binary(rg, fn, case)
        res = out.call(op, {"mul": lambda: f0 * g, "add": lambda: f0 + g, "truediv": lambda: f0 / g}[op])
    elif op == "factor_product":
        want = r0
        for r_ in refs[1:]:
            want = want.binary(r_, lambda a, b: a * b, case)
        res = out.call(op, factor_product, *fs)
    elif op == "factor_divide":
        want = r0.binary(refs[1], _div, case)
        res = out.call(op, factor_divide, f0, fs[1])
    elif op in ("marginalize", "maximize"):
        fn = (lambda a, b: a + b) if op == "marginalize" else max
        want = r0.eliminate(args["vars"], fn, case)
        r = out.call(op, getattr(f0, op), list(args["vars"]), inplace=inplace)
        if r is RAISED:
            return
        res = f0 if inplace else r
        if inplace:
            mutated_ok.add(0)
            if r is not None:
                out.fail(f"{op}:inplace_returned_value", str(type(r)))
    elif op == "reduce":
        want = r0.reduce(args["assign"])
        r = out.call(op, f0.reduce, [tuple(a) for a in args["assign"]], inplace=inplace)
        if r is RAISED:
            return
        res = f0 if inplace else r
        if inplace:
            mutated_ok.add(0)
    elif op == "normalize":
        tot = sum(r0.table.values())
        if tot <= 0:
            out.cls("normalize_zero_total_skipped")
            out.evals = 0
            return
        want = r0.map(lambda v: v / tot)
        r = out.call(op, f0.normalize, inplace=inplace)
        if r is RAISED:
            return
        res = f0 if inplace else r
        if inplace:
            mutated_ok.add(0)
    elif op in ("scalar_product", "scalar_sum"):
        c = args["c"]
        want = r0.map((lambda v: v * c) if op == "scalar_product" else (lambda v: v + c))
        r = out.call(op, f0.product if op == "scalar_product" else f0.sum, c, inplace=inplace)
        if r is RAISED:
            return
        res = f0 if inplace else r
        if inplace:
            mutated_ok.add(0)
    elif op in ("scalar_mul", "scalar_rmul"):
        c = args["c"]
        want = r0.map(lambda v: v * c)
        res = out.call(op, (lambda: f0 * c) if op == "scalar_mul" else (lambda: c * f0))
    elif op == "factor_sum_product":
        prod = r0
        for r_ in refs[1:]:
            prod = prod.binary(r_, lambda a, b: a * b, case)
        gone = [v for v in prod.scope if v not in args["out"]]
        want = prod.eliminate(gone, lambda a, b: a + b, case)
        want.scope = list(args["out"])
        res = out.call(op, factor_sum_product, list(args["out"]), fs)
    elif op == "eq":
        return check_eq(case, out, f0, r0)
    if res is RAISED or res is None:
        if res is None:
            out.fail(f"{op}:returned_none", "out-of-place call returned None")
        return
    compare(out, op, res, want, case)
    # operands untouched?
    for i, (f, s) in enumerate(zip(fs, snaps)):
        if i in mutated_ok:
            continue
        if snapshot(f) != s:
            out.fail(f"{op}:operand_modified", f"operand {i} changed by an out-of-place call")
    # aliasing: edit the result through public in-place operations, operands must not notice
    if not inplace or not mutated_ok:
        try:
            res.product(0.5, inplace=True)
            res.sum(1.0, inplace=True)
            if res.variables:
                v = res.variables[0]
                res.set_value(123.0, **{str(v): res.state_names[v][0]}) if isinstance(v, str) and v.isidentifier() else None
                res.reduce([(v, res.state_names[v][0])], inplace=True)
        except Exception:  # noqa: BLE001 - editing the result is best effort
            pass
        for i, (f, s) in enumerate(zip(fs, snaps)):
            if i in mutated_ok:
                continue
            if snapshot(f) != s:
                out.fail(f"{op}:result_aliases_operand", f"editing the result in place changed operand {i}")
    # the *other* operand of an in-place binary call must be untouched as well
    sc = [set(f["vars"]) for f in case["factors"]]
    if len(sc) >= 2:
        overlap = sc[0] & sc[1]
        out.nontrivial = bool(overlap) and sc[0] != sc[1] or (sc[0] == sc[1] and case["factors"][0]["vars"] != case["factors"][1]["vars"])
        if overlap and sc[0] != sc[1]:
            out.cls("overlapping_unequal_scopes")
        if sc[0] == sc[1] and case["factors"][0]["vars"] != case["factors"][1]["vars"]:
            out.cls("same_scope_different_axis_order")
    elif op in ("marginalize", "maximize", "reduce"):
        out.nontrivial = len(want.scope) >= 1
        if len(case["names"]) >= 9:
            out.cls("nine_or_more_variables")
        if not want.scope:
            out.cls("empty_scope_result")
    out.sample = {"op": op, "inplace": inplace, "factors": [f["vars"] for f in case["factors"]], "args": args}


def check_eq(case, out, f0, r0):
    from pgmpy.factors.discrete import DiscreteFactor

    args = case["args"]
    names, card, states = case["names"], case["card"], case["states"]
    vars0 = case["factors"][0]["vars"]
    # rendering with permuted axes and permuted state lists, same named values
    pv = [vars0[i] for i in args["perm_axes"]]
    pstates = {}
    for v, perm in zip(vars0, args["perm_states"]):
        s = states[names.index(v)]
        pstates[v] = [s[i] for i in perm]
    table = dict(r0.table)
    mutation = args["mutation"]
    scale = max([abs(x) for x in table.values()] + [1.0])
    key = sorted(table.keys(), key=lambda k: sorted(map(repr, k)))[args["pos"] % len(table)]
    expect_equal = True
    if mutation == "value":
        table[key] = table[key] + 1e-2 * scale
        expect_equal = False
    elif mutation == "tiny":
        table[key] = table[key] * (1 + 1e-13)
    vals = []
    for idxs in itertools.product(*[range(len(pstates[v])) for v in pv]):
        vals.append(table[frozenset((v, pstates[v][j]) for v, j in zip(pv, idxs))])
    sn = {v: list(pstates[v]) for v in pv}
    pvars = list(pv)
    if mutation == "state_names" and pv:
        v = pv[0]
        sn[v] = list(sn[v])
        sn[v][0] = "other_state"
        expect_equal = False
    if mutation == "scope" and pv:
        newname = "__renamed__"
        sn[newname] = sn.pop(pv[0])
        pvars[0] = newname
        expect_equal = False
    g = out.call("eq:build", DiscreteFactor, pvars, [len(sn[v]) for v in pvars], vals, state_names=sn)
    if g is RAISED:
        return
    out.cls(f"eq_mutation_{mutation}")
    out.nontrivial = len(pv) >= 2
    for tag, fn in (("eq", lambda: f0 == g), ("eq_rev", lambda: g == f0)):
        r = out.call(tag, fn)
        if r is RAISED:
            continue
        if bool(r) != expect_equal:
            out.fail(f"{tag}:{'unequal_but_same' if expect_equal else 'equal_but_different'}", f"mutation={mutation} vars={vars0} perm={pv}")
    r = out.call("ne", lambda: f0 != g)
    if r is not RAISED and bool(r) == expect_equal:
        out.fail("ne:inconsistent", f"mutation={mutation}")
    if expect_equal and mutation == "none":
        h = out.call("hash", lambda: (hash(f0), hash(f0.copy())))
        if h is not RAISED and h[0] != h[1]:
            out.fail("hash:copy_differs", "")
    out.sample = {"op": "eq", "mutation": mutation, "vars": vars0, "perm": pv}


@st.composite
def wide_case(draw):
    """factors over 6-10 variables (mostly binary) with many variables eliminated / kept: axis bookkeeping at scale"""
    k = draw(st.sampled_from([6, 7, 8, 9, 9, 10, 10, 11, 12]))
    kind = draw(st.sampled_from(["int", "int", "str", "word"]))
    pool = {"int": list(range(12)), "str": gen.STR_NAMES, "word": gen.WORD_NAMES}[kind]
    names = list(draw(st.permutations(pool)))[:k]
    card = [draw(st.sampled_from([2, 2, 2, 2, 1, 3])) for _ in range(k)]
    while True:
        cells = 1
        for c in card:
            cells *= c
        if cells <= 4096:
            break
        card[card.index(max(card))] = 2 if max(card) == 3 else 1
    states = []
    for c in card:
        _, sn = draw(gen.states_for(c, ("range", "str", "perm")))
        states.append(sn)
    op = draw(st.sampled_from(["marginalize", "maximize", "maximize", "reduce", "product"]))
    vs = list(draw(st.permutations(names)))
    vals = [draw(st.integers(0, 50)) / 10.0 for _ in range(min(cells, 64))]
    vals = [vals[(i * 7 + i // 5) % len(vals)] + (i % 11) * 0.01 for i in range(cells)]
    factors = [{"vars": vs, "values": vals}]
    args = {}
    if op in ("marginalize", "maximize"):
        # either a random number of eliminated variables or "keep only a few" (small result scopes out of many axes)
        m = draw(st.integers(1, k - 1)) if draw(st.booleans()) else k - draw(st.integers(1, 4))
        args["vars"] = list(draw(st.permutations(vs)))[:m]
    elif op == "reduce":
        m = draw(st.integers(1, k - 1)) if draw(st.booleans()) else k - draw(st.integers(1, 4))
        sub = list(draw(st.permutations(vs)))[:m]
        args["assign"] = [[v, states[names.index(v)][draw(st.integers(0, card[names.index(v)] - 1))]] for v in sub]
    else:
        sub = list(draw(st.permutations(vs)))[: draw(st.integers(1, 4))]
        n2 = 1
        for v in sub:
            n2 *= card[names.index(v)]
        factors.append({"vars": sub, "values": [1.0 + ((i * 13) % 7) for i in range(n2)]})
    return {"name_kind": kind, "names": names, "card": card, "states": states, "factors": factors, "op": op, "args": args, "inplace": draw(st.booleans())}


# ------------------------------------------------------------------------------------------------ FactorSet
@st.composite
def fset_case(draw):
    """two factor sets over a small universe, strictly positive values (division), pairwise different factors (a
    factor set is a *set*: factors that compare equal are one member, by design) and a list of variables to sum out"""
    k = draw(st.integers(2, 5))
    kind, names = draw(gen.node_names(k))
    card, states = [], []
    for _ in range(k):
        c = draw(st.sampled_from([1, 2, 2, 3]))
        _, sn = draw(gen.states_for(c))
        card.append(c)
        states.append(sn)
    sets = []
    serial = 0
    for _ in range(2):
        fs = []
        for _ in range(draw(st.integers(1, 3))):
            vs = list(draw(st.permutations(names)))[: draw(st.integers(1, min(3, k)))]
            size = 1
            for v in vs:
                size *= card[names.index(v)]
            serial += 1
            # distinct by construction: the first entry encodes a serial number
            vals = [serial + 0.125] + [draw(st.integers(1, 40)) / 8.0 for _ in range(size - 1)]
            fs.append({"vars": vs, "values": vals})
        sets.append(fs)
    marg = [v for v in names if draw(st.integers(0, 2)) == 0]
    return {"name_kind": kind, "names": names, "card": card, "states": states, "sets": sets, "marginalize": marg}


def check_fset(case, out):
    """FactorSet.product / divide (and *, /, factorset_product, factorset_divide): the product of the members of the
    result is the product / quotient of the operands' products; marginalize, when every summed-out variable occurs in
    one member only, sums the represented function; out-of-place calls leave the operands alone."""
    from pgmpy.factors import FactorSet, factorset_divide, factorset_product

    fa = [build(case, f) for f in case["sets"][0]]
    fb = [build(case, f) for f in case["sets"][1]]
    A = out.call("FactorSet", FactorSet, *fa)
    B = out.call("FactorSet", FactorSet, *fb)
    if A is RAISED or B is RAISED:
        return
    names = case["names"]

    def ref_of(specs):
        r = None
        for f in specs:
            x = Ref.from_spec(case, f)
            r = x if r is None else r.binary(x, lambda p, q: p * q, case)
        return r

    def represented(fset):
        r = None
        for phi in fset.get_factors():
            x = Ref(list(phi.variables), named(phi))
            r = x if r is None else r.binary(x, lambda p, q: p * q, case)
        return r

    def same_function(got, want, tag):
        if got is None or set(got.scope) != set(want.scope):
            out.fail(f"{tag}:scope", f"{None if got is None else got.scope} vs {want.scope}")
            return
        for key, w in want.table.items():
            g = got.table.get(key)
            if g is None or not (abs(g - w) <= 1e-9 * max(1.0, abs(w))):
                out.fail(f"{tag}:value", f"at {sorted(map(str, key))}: got {g!r} want {w!r}")
                return

    ra, rb = ref_of(case["sets"][0]), ref_of(case["sets"][1])
    before = ([snapshot(x) for x in A.get_factors()], [snapshot(x) for x in B.get_factors()])

    def untouched(tag):
        now = ([snapshot(x) for x in A.get_factors()], [snapshot(x) for x in B.get_factors()])
        key = lambda t: sorted(map(str, t))  # noqa: E731 - set order is not defined
        if key(now[0]) != key(before[0]) or key(now[1]) != key(before[1]):
            out.fail(f"{tag}:operand_modified", "")

    out.nontrivial = len(fa) + len(fb) >= 3
    out.cls(f"names_{case['name_kind']}")
    out.evals = 0
    prod_ref = ra.binary(rb, lambda p, q: p * q, case)
    div_ref = ra.binary(rb, lambda p, q: p / q, case)
    for tag, fn, want in (("fset.product", lambda: A.product(B, inplace=False), prod_ref), ("fset[*]", lambda: A * B if False else A.copy().__mul__(B), prod_ref),
                          ("factorset_product", lambda: factorset_product(A, B), prod_ref), ("fset.divide", lambda: A.divide(B, inplace=False), div_ref),
                          ("factorset_divide", lambda: factorset_divide(A, B), div_ref)):
        r = out.call(tag, fn)
        out.evals += 1
        if r is RAISED:
            continue
        res = r if r is not None else None
        if tag == "fset[*]":
            continue  # `*` is the in-place product of a copy here: covered by the in-place variant below
        same_function(represented(res) if res is not None else None, want, tag)
        untouched(tag)
    C = A.copy()
    r = out.call("fset.product[inplace]", C.product, B, inplace=True)
    out.evals += 1
    if r is not RAISED:
        same_function(represented(C), prod_ref, "fset.product[inplace]")
    # marginalize: only when each summed-out variable lives in a single member (otherwise the member-wise rule of
    # the documentation is not the sum of the represented function, and nothing is claimed)
    marg = []
    for v in case["marginalize"]:
        holders = [f for f in case["sets"][0] if v in f["vars"]]
        # one holder only, and that member keeps a variable (a member summed out completely becomes a scalar factor,
        # which cannot be hashed into the set - not part of this property)
        if len(holders) == 1 and len([x for x in holders[0]["vars"] if x not in marg and x != v]) >= 1:
            marg.append(v)
    if marg:
        # a factor set is a *set* under value equality: if summing out makes a member equal to another one, the two become
        # one member (by design of the class) and the represented function changes; such cases are counted, not judged
        after = []
        for f in case["sets"][0]:
            r_ = Ref.from_spec(case, f)
            mv = [v for v in marg if v in f["vars"]]
            after.append(r_.eliminate(mv, lambda p, q: p + q, case) if mv else r_)
        collide = any(set(x.scope) == set(y.scope) and all(abs(x.table[k_] - y.table[k_]) <= 1e-8 + 1e-5 * abs(y.table[k_]) for k_ in y.table)
                      for i_, x in enumerate(after) for y in after[i_ + 1:])
        if collide:
            out.cls("fset_marginalize_members_collide")
            marg = []
    if marg:
        out.cls("fset_marginalize")
        r = out.call("fset.marginalize", A.marginalize, list(marg), inplace=False)
        out.evals += 1
        if r is not RAISED and r is not None:
            same_function(represented(r), ra.eliminate(marg, lambda p, q: p + q, case), "fset.marginalize")
            untouched("fset.marginalize")
        C2 = A.copy()
        r = out.call("fset.marginalize[inplace_on_copy]", C2.marginalize, list(marg), inplace=True)
        out.evals += 1
        if r is not RAISED:
            same_function(represented(C2), ra.eliminate(marg, lambda p, q: p + q, case), "fset.marginalize[inplace_on_copy]")
            untouched("fset.marginalize[inplace_on_copy]")
    out.sample = {"sets": [[f["vars"] for f in fs] for fs in case["sets"]], "marginalize": marg}


THOROUGH_SCALE = 6  # thorough-tier example counts are n["thorough"] x this (one thorough run then takes roughly 5-10 minutes on 16 cores)
SUBCHECKS = [
    Sub("factor_set", check_fset, strategy=lambda tier: fset_case(), n={"quick": 150, "thorough": 2500}, shards={"quick": 2, "thorough": 4},
        doc="FactorSet product / divide / marginalize: the represented function (product of the members) vs the dictionary reference; operands untouched"),
    Sub("wide_ops", check_op, strategy=lambda tier: wide_case(), n={"quick": 150, "thorough": 1500}, shards={"quick": 6, "thorough": 8},
        doc="marginalize / maximize / reduce / product on factors over 6-10 variables (axis and label bookkeeping beyond small scopes)"),
    Sub("ops", check_op, strategy=lambda tier: fcase(), n={"quick": 500, "thorough": 8000},
        shards={"quick": 12, "thorough": 16}, fuzz={"thorough": (2, 300)},
        doc="every DiscreteFactor operation vs dictionary-factor reference; operand immutability; aliasing; equality"),
]
PREDICATES = {}
