"""Core data types of the verification framework.

A *case* is plain data (dict / list / tuple / str / int / float / bool / None).  A *sub-check* couples a
generator of cases (a Hypothesis strategy or an exhaustive enumerator) with a pure function
``check(case, out)`` that runs pgmpy and an independent oracle on the case and records disagreements
in ``out``.  Nothing here imports pgmpy.
"""
import hashlib
import json
import os
import sys
import traceback

RAISED = object()  # sentinel returned by Out.call when the wrapped call raised


class CallTimeout(BaseException):
    """raised by the SIGALRM handler inside Out.call (BaseException: library code must not swallow it)"""


# ----------------------------------------------------------------------------------------------
# JSON with tuples (node names / state names may be tuples)
# ----------------------------------------------------------------------------------------------
def _enc(o):
    if isinstance(o, tuple):
        return {"__t": [_enc(x) for x in o]}
    if isinstance(o, list):
        return [_enc(x) for x in o]
    if isinstance(o, dict):
        for k in o:
            if not isinstance(k, str):
                raise TypeError(f"case dict keys must be str, got {k!r}")
        return {k: _enc(v) for k, v in o.items()}
    if isinstance(o, (str, bool, int, float)) or o is None:
        return o
    # numpy scalars and the like
    try:
        import numpy as np

        if isinstance(o, np.integer):
            return int(o)
        if isinstance(o, np.floating):
            return float(o)
        if isinstance(o, np.ndarray):
            return _enc(o.tolist())
        if isinstance(o, np.bool_):
            return bool(o)
    except ImportError:
        pass
    if isinstance(o, (set, frozenset)):
        return {"__s": sorted((_enc(x) for x in o), key=lambda x: json.dumps(x, sort_keys=True))}
    raise TypeError(f"not serialisable in a case: {type(o)} {o!r}")


def _dec(o):
    if isinstance(o, dict):
        if set(o.keys()) == {"__t"}:
            return tuple(_dec(x) for x in o["__t"])
        if set(o.keys()) == {"__s"}:
            return frozenset(_dec(x) for x in o["__s"])
        return {k: _dec(v) for k, v in o.items()}
    if isinstance(o, list):
        return [_dec(x) for x in o]
    return o


def dumps(o, **kw):
    return json.dumps(_enc(o), sort_keys=True, **kw)


def loads(s):
    return _dec(json.loads(s))


def case_hash(case):
    return hashlib.sha1(dumps(case).encode()).hexdigest()[:16]


# ----------------------------------------------------------------------------------------------
# per-case collector
# ----------------------------------------------------------------------------------------------
def _innermost_repo_frame(tb):
    """file:function of the innermost frame lying in the code under test (pgmpy/)."""
    best = None
    for fr in traceback.extract_tb(tb):
        fn = fr.filename.replace("\\", "/")
        if "/pgmpy/" in fn and "/vf/" not in fn:
            best = f"{fn.split('/pgmpy/', 1)[1]}:{fr.name}"
    return best


class Out:
    """Collects what one case showed: failures (label + detail), class labels, non-triviality."""

    def __init__(self):
        self.failures = []  # list of (label, detail)
        self.classes = []
        self.nontrivial = False
        self.evals = 1  # number of pgmpy evaluations compared with the oracle in this case
        self.sample = None  # optional compact rendering for the evidence file

    def fail(self, label, detail=""):
        self.failures.append((label, str(detail)[:2000]))

    def cls(self, *names):
        self.classes.extend(names)

    def call(self, label, fn, *a, **k):
        """Run a pgmpy call that the property says must succeed; a raise becomes a failure record.
        A call that is still running after CALL_TIMEOUT seconds (default 120; these calls take milliseconds)
        is interrupted and recorded under '<label>:no_result_within_timeout' -- a hang, not a slow machine."""
        import signal

        limit = int(k.pop("_timeout", None) or os.environ.get("VF_CALL_TIMEOUT", "120"))
        use_alarm = hasattr(signal, "SIGALRM") and limit > 0

        def _handler(signum, frame):
            raise CallTimeout()

        try:
            if use_alarm:
                old = signal.signal(signal.SIGALRM, _handler)
                signal.alarm(limit)
            try:
                return fn(*a, **k)
            finally:
                if use_alarm:
                    signal.alarm(0)
                    signal.signal(signal.SIGALRM, old)
        except CallTimeout:
            self.fail(f"{label}:no_result_within_timeout", f"still running after {limit} s")
            return RAISED
        except Exception as e:  # noqa: BLE001 - every exception from the code under test is recorded
            frame = _innermost_repo_frame(e.__traceback__)
            if frame is None:
                raise  # not from pgmpy: harness bug, let it surface as exit 2
            self.fail(f"{label}:raised {type(e).__name__}@{frame}", f"{type(e).__name__}: {e}")
            return RAISED

    def expect_raise(self, label, fn, *a, exc=Exception, **k):
        """Run a call that must be rejected cleanly."""
        try:
            fn(*a, **k)
        except exc:
            return True
        except Exception as e:  # noqa: BLE001
            self.fail(f"{label}:wrong exception {type(e).__name__}", f"{e}")
            return False
        self.fail(f"{label}:accepted", "call was expected to raise")
        return False


class Sub:
    """One sub-check of a property."""

    def __init__(
        self,
        name,
        check,
        strategy=None,
        enumerate=None,
        n=None,
        shards=None,
        doc="",
        sweep=False,
        fuzz=None,
    ):
        self.name = name
        self.check = check
        self.strategy = strategy  # callable(tier) -> hypothesis strategy producing cases
        self.enumerate = enumerate  # callable(tier) -> (total, callable(index_range)->iterator of cases)
        self.n = n or {"quick": 200, "thorough": 2000}  # examples per shard (strategy subs)
        self.shards = shards or {"quick": 4, "thorough": 16}
        self.doc = doc
        self.sweep = sweep  # all shards run the same cases (same Hypothesis seed) under different hash seeds
        # coverage-guided campaigns on top of the random shards: {tier: (number of atheris shards, seconds each)}
        self.fuzz = fuzz or {}


def close(a, b, rtol=1e-9, atol=1e-9):
    if a == b:
        return True
    try:
        return abs(a - b) <= atol + rtol * max(abs(a), abs(b))
    except (OverflowError, TypeError):
        return False


def repo_path():
    return os.environ.get("VERIF_REPO", "/repo")


def setup_repo_import():
    """Make `import pgmpy` resolve to the working tree under test and silence it."""
    rp = repo_path()
    if rp not in sys.path:
        sys.path.insert(0, rp)
    os.environ.setdefault("PYTHONDONTWRITEBYTECODE", "1")
    sys.dont_write_bytecode = True
    import logging
    import warnings

    warnings.filterwarnings("ignore")
    import pgmpy  # noqa: F401
    from pgmpy.global_vars import config, logger

    assert os.path.realpath(pgmpy.__file__).startswith(os.path.realpath(rp)), (
        pgmpy.__file__,
        rp,
    )
    logger.setLevel(logging.CRITICAL)
    logging.getLogger("pgmpy").setLevel(logging.CRITICAL)
    config.set_show_progress(False)
