"""Known-findings matcher.  Reads /verif/known_findings.json; never writes it."""
import json
import os
import re

HERE = os.path.dirname(os.path.dirname(os.path.abspath(__file__)))
PATH = os.path.join(HERE, "known_findings.json")


def load(prop):
    if not os.path.exists(PATH):
        return []
    with open(PATH) as f:
        entries = json.load(f)
    return [e for e in entries if e.get("property") == prop and e.get("status") == "known"]


def match(entries, predicates, sub, label, case):
    """Return the id of the first *known* entry covering this failure record, else None.

    An entry covers a record only if the sub-check matches, the label matches the entry's regex and the
    entry's input-class predicate (a named pure function of the case, defined by the property module)
    holds for the case.  Any other failure of the same property stays a fresh violation.
    """
    for e in entries:
        subs = e.get("subcheck")
        if subs is not None and sub not in (subs if isinstance(subs, list) else [subs]):
            continue
        if not re.search(e.get("label_regex", "^$"), label):
            continue
        pred = e.get("predicate")
        if pred is not None:
            fn = predicates.get(pred)
            if fn is None:
                continue
            try:
                if not fn(case):
                    continue
            except Exception:  # noqa: BLE001 - a predicate that cannot be evaluated does not match
                continue
        return e["id"]
    return None
