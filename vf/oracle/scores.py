"""Closed-form structure scores over explicit counts (math.lgamma / math.log only)."""
import math

from . import counts as OC


def _table(ds, var, parents, states):
    N = OC.counts(ds, var, list(parents), states=states)
    r = len(states[var])
    q = len(N)
    return N, r, q


def k2(ds, var, parents, states):
    N, r, q = _table(ds, var, parents, states)
    s = 0.0
    for row in N.values():
        nj = sum(row.values())
        s += math.lgamma(r) - math.lgamma(nj + r) + sum(math.lgamma(n + 1) for n in row.values())
    return s


def bdeu(ds, var, parents, states, ess):
    N, r, q = _table(ds, var, parents, states)
    a = ess / q
    b = ess / (q * r)
    s = 0.0
    for row in N.values():
        nj = sum(row.values())
        s += math.lgamma(a) - math.lgamma(nj + a) + sum(math.lgamma(n + b) - math.lgamma(b) for n in row.values())
    return s


def bds(ds, var, parents, states, ess):
    """Scutari (2016): the imaginary sample is spread over the *observed* parent configurations only."""
    N, r, q = _table(ds, var, parents, states)
    obs = [row for row in N.values() if sum(row.values()) > 0]
    qt = len(obs)
    if qt == 0:
        return 0.0
    a = ess / qt
    b = ess / (qt * r)
    s = 0.0
    for row in obs:
        nj = sum(row.values())
        s += math.lgamma(a) - math.lgamma(nj + a) + sum(math.lgamma(n + b) - math.lgamma(b) for n in row.values())
    return s


def loglik(ds, var, parents, states):
    N, r, q = _table(ds, var, parents, states)
    s = 0.0
    for row in N.values():
        nj = sum(row.values())
        for n in row.values():
            if n > 0:
                s += n * math.log(n / nj)
    return s, r, q


def bic(ds, var, parents, states):
    ll, r, q = loglik(ds, var, parents, states)
    return ll - 0.5 * math.log(len(ds["rows"])) * q * (r - 1)


def aic(ds, var, parents, states):
    ll, r, q = loglik(ds, var, parents, states)
    return ll - q * (r - 1)


def bds_prior(n_nodes, n_edges):
    return -(n_edges + n_nodes * (n_nodes - 1) / 2.0) * math.log(2.0)


def selftest():
    """K2 / BDeu closed forms == log of the Dirichlet-multinomial marginal likelihood by sequential prediction."""
    ds = {"columns": ["A", "B"], "states": [[0, 1, 2], [0, 1]], "rows": [[0, 0], [1, 0], [1, 1], [0, 0], [2, 1], [1, 1], [1, 0]], "pass_state_names": True}
    states = OC.effective_states(ds)
    for parents in ([], ["B"]):
        for name, alpha_of in (("k2", lambda r, q: 1.0), ("bdeu", lambda r, q: 3.0 / (r * q))):
            r = 3
            q = 2 if parents else 1
            a = alpha_of(r, q)
            seen = {}
            ll = 0.0
            for row in OC.named_rows(ds):
                cfg = tuple(row[p] for p in parents)
                c = seen.setdefault(cfg, {s: 0 for s in states["A"]})
                ll += math.log((c[row["A"]] + a) / (sum(c.values()) + a * r))
                c[row["A"]] += 1
            got = k2(ds, "A", parents, states) if name == "k2" else bdeu(ds, "A", parents, states, 3.0)
            if abs(got - ll) > 1e-9:
                raise AssertionError(f"score oracle self-test failed: {name} {parents}: {got} vs {ll}")
    return 4
