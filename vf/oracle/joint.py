"""Brute-force reference for discrete models, written from the definitions (no pgmpy).

A Bayesian-network spec is multiplied out into an explicit joint table; a Markov-network / factor spec is
the product of its factors.  Everything is plain Python over dicts keyed by tuples of state *indexes* in
the spec's node order; conversion to named assignments uses the spec's own state lists.
"""
import itertools


class Joint:
    def __init__(self, nodes, states, table):
        self.nodes = list(nodes)
        self.states = [list(s) for s in states]
        self.idx = {v: i for i, v in enumerate(self.nodes)}
        self.table = table  # {tuple(state index per node): value}

    # ---------------------------------------------------------------- construction
    @classmethod
    def from_bn(cls, spec, do=None):
        """Product of all CPDs.  `do` = {var: state_index}: truncated factorisation (CPDs of do-variables
        dropped, their value clamped)."""
        nodes = spec["nodes"]
        idx = {v: i for i, v in enumerate(nodes)}
        card = spec["card"]
        do = do or {}
        cp = []
        for c in spec["cpds"]:
            v = c["var"]
            if v in do:
                continue
            pidx = [idx[p] for p in c["parents"]]
            pcard = [card[i] for i in pidx]
            cp.append((idx[v], pidx, pcard, c["table"]))
        table = {}
        ranges = [range(card[i]) if nodes[i] not in do else [do[nodes[i]]] for i in range(len(nodes))]
        for a in itertools.product(*ranges):
            p = 1.0
            for vi, pidx, pcard, tab in cp:
                col = 0
                for i, k in zip(pidx, pcard):
                    col = col * k + a[i]
                p *= tab[a[vi]][col]
                if p == 0.0:
                    break
            table[a] = p
        return cls(nodes, spec["states"], table)

    @classmethod
    def from_factors(cls, nodes, states, factors):
        """factors: list of {"vars": [...], "values": nested/flat row-major list over vars order}."""
        idx = {v: i for i, v in enumerate(nodes)}
        card = [len(s) for s in states]
        fs = []
        for f in factors:
            vi = [idx[v] for v in f["vars"]]
            fs.append((vi, [card[i] for i in vi], f["values"]))
        table = {}
        for a in itertools.product(*[range(k) for k in card]):
            p = 1.0
            for vi, vc, flat in fs:
                pos = 0
                for i, k in zip(vi, vc):
                    pos = pos * k + a[i]
                p *= flat[pos]
            table[a] = p
        return cls(nodes, states, table)

    # ---------------------------------------------------------------- queries
    def total(self):
        return sum(self.table.values())

    def weighted(self, evidence=None, virtual=None):
        """Return {assignment: weight} after hard evidence {var: state_name} and virtual evidence
        [(var, [likelihood per state index])]."""
        ev = {}
        for v, s in (evidence or {}).items():
            ev[self.idx[v]] = self.states[self.idx[v]].index(s)
        virt = [(self.idx[v], lik) for v, lik in (virtual or [])]
        out = {}
        for a, p in self.table.items():
            if any(a[i] != s for i, s in ev.items()):
                continue
            for i, lik in virt:
                p *= lik[a[i]]
            out[a] = p
        return out

    def marginal(self, variables, evidence=None, virtual=None, normalize=True, op="sum"):
        """Named marginal {frozenset((var, state)): value} over `variables`."""
        w = self.weighted(evidence, virtual)
        vi = [self.idx[v] for v in variables]
        acc = {}
        for a, p in w.items():
            key = tuple(a[i] for i in vi)
            if op == "sum":
                acc[key] = acc.get(key, 0.0) + p
            else:
                acc[key] = max(acc.get(key, 0.0), p)
        # make sure every cell is present
        for key in itertools.product(*[range(len(self.states[i])) for i in vi]):
            acc.setdefault(key, 0.0)
        z = sum(acc.values()) if op == "sum" else None
        if normalize:
            if not z:
                raise ZeroDivisionError("zero-probability evidence in oracle")
            acc = {k: v / z for k, v in acc.items()}
        named = {}
        for key, val in acc.items():
            named[frozenset((v, self.states[i][s]) for v, i, s in zip(variables, vi, key))] = val
        return named

    def prob(self, assignment):
        """P(partial assignment by state name) (unnormalised tables: plain sum)."""
        ev = {self.idx[v]: self.states[self.idx[v]].index(s) for v, s in assignment.items()}
        return sum(p for a, p in self.table.items() if all(a[i] == s for i, s in ev.items()))

    def support_assignments(self):
        return [a for a, p in self.table.items() if p > 0]


def compare_named(got, want, rtol=1e-9, atol=1e-9):
    """Compare two named tables; returns None if equal else a short description."""
    if set(got.keys()) != set(want.keys()):
        extra = list(set(got.keys()) - set(want.keys()))[:2]
        missing = list(set(want.keys()) - set(got.keys()))[:2]
        return f"assignment sets differ: extra={[sorted(map(str, e)) for e in extra]} missing={[sorted(map(str, m)) for m in missing]}"
    worst = None
    for k, w in want.items():
        g = got[k]
        if not (abs(g - w) <= atol + rtol * max(abs(g), abs(w))):
            if worst is None or abs(g - w) > worst[0]:
                worst = (abs(g - w), k, g, w)
    if worst:
        return f"value mismatch at {sorted(map(str, worst[1]))}: got {worst[2]!r} want {worst[3]!r}"
    return None
