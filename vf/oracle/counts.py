"""Counting statistics of a discrete data spec by plain loops (no pandas, no pgmpy)."""
import itertools


def effective_states(ds):
    """State list per column as the library sees it: the declared list when state names are passed,
    otherwise the sorted list of observed values."""
    out = {}
    for j, c in enumerate(ds["columns"]):
        if ds.get("pass_state_names"):
            out[c] = list(ds["states"][j])
        else:
            seen = sorted({r[j] for r in ds["rows"]})
            out[c] = [ds["states"][j][i] for i in seen]
    return out


def named_rows(ds):
    cols = ds["columns"]
    return [{c: ds["states"][j][r[j]] for j, c in enumerate(cols)} for r in ds["rows"]]


def counts(ds, child, parents, states=None, weighted=False):
    """{parent_config (tuple of state names in `parents` order): {child_state: count}} incl. zero cells"""
    states = states or effective_states(ds)
    rows = named_rows(ds)
    w = ds.get("weights") if weighted else None
    table = {}
    for cfg in itertools.product(*[states[p] for p in parents]):
        table[cfg] = {k: 0.0 for k in states[child]}
    for i, r in enumerate(rows):
        cfg = tuple(r[p] for p in parents)
        table[cfg][r[child]] += (w[i] if w else 1.0)
    return table
