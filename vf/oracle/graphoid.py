"""Semi-graphoid closure by a naive fixpoint over canonical triples (no pgmpy).

A statement  A _|_ B | C  (A, B non-empty, A, B, C pairwise disjoint) is stored as
(frozenset({frozenset(A), frozenset(B)}), frozenset(C)), so symmetry is built in.
"""
import itertools


def canon(A, B, C=()):
    return (frozenset((frozenset(A), frozenset(B))), frozenset(C))


def _nonempty_proper_subsets(s):
    s = sorted(s, key=repr)
    for r in range(1, len(s)):
        for c in itertools.combinations(s, r):
            yield frozenset(c)


def _orient(t):
    (ab, C) = t
    ab = list(ab)
    if len(ab) == 1:  # A == B cannot happen for disjoint non-empty sets
        return []
    return [(ab[0], ab[1], C), (ab[1], ab[0], C)]


def closure(statements, max_size=200000, loose=False):
    """semi-graphoid closure; loose=True additionally applies pgmpy's over-permissive contraction
    (X _|_ W | S  &  X _|_ Y | Z  =>  X _|_ W u Y | Z whenever Y and Z are disjoint proper subsets of S),
    used only to classify a *known* unsoundness."""
    known = set(statements)
    frontier = set(statements)
    while frontier:
        new = set()
        for t in frontier:
            for A, B, C in _orient(t):
                for B1 in _nonempty_proper_subsets(B):
                    D = B - B1
                    new.add(canon(A, B1, C))  # decomposition
                    new.add(canon(A, B1, C | D))  # weak union
        # contraction:  (A _|_ B | C)  &  (A _|_ D | C u B)  =>  (A _|_ B u D | C)
        allk = known | new
        by_first = {}
        for t in allk:
            for A, B, C in _orient(t):
                by_first.setdefault(A, []).append((B, C))
        for A, lst in by_first.items():
            idx = {}
            for B, C in lst:
                idx.setdefault(C, []).append(B)
            for B, C in lst:
                for D in idx.get(C | B, []):
                    if not (D & (A | B | C)):
                        new.add(canon(A, B | D, C))
            if loose:
                for W, S in lst:
                    for Y, Z in lst:
                        if Y < S and Z < S and not (Y & Z) and not ((W | Y) & (A | Z)) and not (A & Z):
                            new.add(canon(A, W | Y, Z))
        frontier = new - known
        known |= frontier
        if len(known) > max_size:
            raise RuntimeError("closure too large")
    return known


def selftest():
    """Against a direct, differently-written fixpoint on a 4-variable universe."""
    V = ["a", "b", "c", "d"]

    def all_triples():
        out = []
        for assign in itertools.product((0, 1, 2, 3), repeat=len(V)):
            A = frozenset(v for v, k in zip(V, assign) if k == 1)
            B = frozenset(v for v, k in zip(V, assign) if k == 2)
            C = frozenset(v for v, k in zip(V, assign) if k == 3)
            if A and B:
                out.append((A, B, C))
        return out

    T = all_triples()

    def naive(seed):
        K = set(seed)
        changed = True
        while changed:
            changed = False
            for A, B, C in T:
                t = canon(A, B, C)
                if t in K:
                    continue
                ok = False
                # derivable by decomposition / weak union from a known statement with a bigger second set?
                for (A2, B2, C2) in T:
                    t2 = canon(A2, B2, C2)
                    if t2 not in K:
                        continue
                    for X, Y in ((A2, B2), (B2, A2)):
                        if X == A and B < Y and (C == C2 or C == C2 | (Y - B)):
                            ok = True
                        if X == B and A < Y and (C == C2 or C == C2 | (Y - A)):
                            ok = True
                if not ok:
                    # contraction: split B = B1 u D
                    for X, Y in ((A, B), (B, A)):
                        for Y1 in _nonempty_proper_subsets(Y):
                            D = Y - Y1
                            if canon(X, Y1, C) in K and canon(X, D, C | Y1) in K:
                                ok = True
                if ok:
                    K.add(t)
                    changed = True
        return K

    seeds = [
        [canon("a", "bc", "d")],
        [canon("a", "b", ""), canon("a", "c", "b")],
        [canon("a", "b", "c"), canon("a", "d", "bc"), canon("b", "d", "")],
        [canon("ab", "cd", "")],
    ]
    for s in seeds:
        if closure(s) != naive(s):
            raise AssertionError(f"semi-graphoid oracle self-test failed on {s}")
    return len(seeds)
