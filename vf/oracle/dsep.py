"""d-separation by the path-based definition (no pgmpy, no networkx).

Graphs are given as (n, edges) over integer nodes 0..n-1 or as (nodes, edges) over arbitrary hashables.
"""
import itertools


class G:
    def __init__(self, nodes, edges):
        self.nodes = list(nodes)
        self.edges = [tuple(e) for e in edges]
        self.pa = {v: set() for v in self.nodes}
        self.ch = {v: set() for v in self.nodes}
        for u, v in self.edges:
            self.pa[v].add(u)
            self.ch[u].add(v)
        self.nb = {v: self.pa[v] | self.ch[v] for v in self.nodes}
        self._desc = {}
        self._anc = {}

    def descendants(self, v):
        """strict descendants"""
        if v not in self._desc:
            seen = set()
            stack = list(self.ch[v])
            while stack:
                x = stack.pop()
                if x not in seen:
                    seen.add(x)
                    stack.extend(self.ch[x])
            self._desc[v] = seen
        return self._desc[v]

    def ancestors(self, v):
        """strict ancestors"""
        if v not in self._anc:
            seen = set()
            stack = list(self.pa[v])
            while stack:
                x = stack.pop()
                if x not in seen:
                    seen.add(x)
                    stack.extend(self.pa[x])
            self._anc[v] = seen
        return self._anc[v]

    def ancestral_set(self, vs):
        out = set(vs)
        for v in vs:
            out |= self.ancestors(v)
        return out

    def adjacent(self, u, v):
        return v in self.nb[u]

    # ------------------------------------------------------------------ the definition
    def reachable(self, start, Z):
        """All y != start, y not in Z, joined to `start` by a simple trail that is active given Z:
        every non-collider on the trail is outside Z and every collider has a descendant-or-self in Z."""
        Z = set(Z)
        opens_collider = {v: (v in Z or bool(self.descendants(v) & Z)) for v in self.nodes}
        found = set()

        def extend(path):
            last = path[-1]
            for nxt in self.nb[last]:
                if nxt in path:
                    continue
                # `last` becomes an inner node of the trail (unless it is the start): check its status
                if len(path) >= 2:
                    prev = path[-2]
                    collider = (prev in self.pa[last]) and (nxt in self.pa[last])
                    if collider:
                        if not opens_collider[last]:
                            continue
                    elif last in Z:
                        continue
                if nxt not in Z:
                    found.add(nxt)
                # continue through nxt even if it is in Z (it may be an open collider)
                extend(path + [nxt])

        extend([start])
        found.discard(start)
        return found

    def dsep(self, x, y, Z):
        return y not in self.reachable(x, Z)

    # ------------------------------------------------------------------ second, independent criterion (self-test)
    def dsep_moral(self, x, y, Z):
        """Lauritzen: x _|_ y | Z iff x, y are separated by Z in the moral graph of the ancestral set of {x,y} u Z."""
        A = self.ancestral_set([x, y] + list(Z))
        und = {v: set() for v in A}
        for u, v in self.edges:
            if u in A and v in A:
                und[u].add(v)
                und[v].add(u)
        for v in A:
            ps = [p for p in self.pa[v] if p in A]
            for a, b in itertools.combinations(ps, 2):
                und[a].add(b)
                und[b].add(a)
        Z = set(Z)
        seen = {x}
        stack = [x]
        while stack:
            u = stack.pop()
            for w in und[u]:
                if w not in seen and w not in Z:
                    seen.add(w)
                    stack.append(w)
        return y not in seen

    # ------------------------------------------------------------------ derived notions
    def moral_edges(self):
        e = set()
        for u, v in self.edges:
            e.add(frozenset((u, v)))
        for v in self.nodes:
            for a, b in itertools.combinations(sorted(self.pa[v], key=repr), 2):
                e.add(frozenset((a, b)))
        return e

    def markov_blanket(self, v):
        mb = set(self.pa[v]) | set(self.ch[v])
        for c in self.ch[v]:
            mb |= self.pa[c]
        mb.discard(v)
        return mb

    def skeleton(self):
        return {frozenset(e) for e in self.edges}

    def vstructures(self):
        """set of (frozenset({a, b}), c) with a -> c <- b and a, b non-adjacent"""
        out = set()
        for c in self.nodes:
            for a, b in itertools.combinations(sorted(self.pa[c], key=repr), 2):
                if not self.adjacent(a, b):
                    out.add((frozenset((a, b)), c))
        return out


def selftest():
    """path definition == moral-ancestral criterion on all 543 four-node DAGs (every x, y, Z)."""
    from ..gen import all_dags

    n = 4
    cnt = 0
    for edges in all_dags(n):
        g = G(range(n), edges)
        for x in range(n):
            others = [v for v in range(n) if v != x]
            for r in range(len(others) + 1):
                for Z in itertools.combinations(others, r):
                    reach = g.reachable(x, Z)
                    for y in others:
                        if y in Z:
                            continue
                        cnt += 1
                        if (y not in reach) != g.dsep_moral(x, y, Z):
                            raise AssertionError(f"d-sep oracle self-test failed: {edges} x={x} y={y} Z={Z}")
    return cnt
