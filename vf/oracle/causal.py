"""Back-door / front-door criteria checked directly on paths (no pgmpy)."""
from .dsep import G


def simple_trails(g, x, y):
    """all simple trails (node lists) from x to y in the skeleton"""
    out = []

    def ext(path):
        last = path[-1]
        if last == y:
            out.append(list(path))
            return
        for n in g.nb[last]:
            if n not in path:
                path.append(n)
                ext(path)
                path.pop()

    ext([x])
    return out


def trail_active(g, path, Z):
    Z = set(Z)
    for i in range(1, len(path) - 1):
        a, b, c = path[i - 1], path[i], path[i + 1]
        collider = a in g.pa[b] and c in g.pa[b]
        if collider:
            if not (b in Z or g.descendants(b) & Z):
                return False
        elif b in Z:
            return False
    return True


def directed_paths(g, x, y):
    out = []

    def ext(path):
        last = path[-1]
        if last == y:
            out.append(list(path))
            return
        for n in g.ch[last]:
            if n not in path:
                path.append(n)
                ext(path)
                path.pop()

    ext([x])
    return out


def backdoor_ok(g, x, Y, Z):
    """Pearl's back-door criterion for Z relative to (x, Y) (Y: iterable of outcomes)."""
    Z = set(Z)
    if Z & g.descendants(x) or x in Z:
        return False
    for y in Y:
        if y in Z or y == x:
            return False
        for p in simple_trails(g, x, y):
            if len(p) >= 2 and p[1] in g.pa[x]:  # path contains an arrow into x
                if trail_active(g, p, Z):
                    return False
    return True


def frontdoor_ok(g, x, y, Z):
    """Pearl's front-door criterion for Z relative to (x, y)."""
    Z = set(Z)
    if x in Z or y in Z:
        return False
    # (i) Z intercepts all directed paths from x to y
    for p in directed_paths(g, x, y):
        if not (set(p[1:-1]) & Z):
            return False
    # (ii) there is no unblocked back-door path from x to Z
    for z in Z:
        for p in simple_trails(g, x, z):
            if len(p) >= 2 and p[1] in g.pa[x] and trail_active(g, p, set()):
                return False
    # (iii) all back-door paths from Z to y are blocked by x
    for z in Z:
        for p in simple_trails(g, z, y):
            if len(p) >= 2 and p[1] in g.pa[z] and trail_active(g, p, {x}):
                return False
    return True
