"""Markov-equivalence-class references (no pgmpy): signatures, CPDAGs by brute force and by Meek rules,
PDAG extendability by brute force."""
import itertools

from .dsep import G


def signature(n, edges):
    """(skeleton, v-structures) of a DAG over 0..n-1 — equal iff Markov equivalent (Verma & Pearl)."""
    g = G(range(n), edges)
    return (frozenset(g.skeleton()), frozenset(g.vstructures()))


_CLASS_CACHE = {}


def classes(n):
    """signature -> list of member DAGs (edge tuples), over all labelled DAGs on n nodes."""
    if n not in _CLASS_CACHE:
        from ..gen import all_dags

        d = {}
        for e in all_dags(n):
            d.setdefault(signature(n, e), []).append(e)
        _CLASS_CACHE[n] = d
    return _CLASS_CACHE[n]


def cpdag_bruteforce(n, edges):
    """(directed, undirected): an edge is directed iff it has the same direction in every member of the class."""
    members = classes(n)[signature(n, edges)]
    common = set(members[0])
    for m in members[1:]:
        common &= set(m)
    und = {frozenset(e) for e in edges if tuple(e) not in common}
    return set(common), und


def cpdag_meek(nodes, edges):
    """CPDAG by v-structures + Meek rules R1-R3 to a fixpoint (used beyond the brute-force bound)."""
    g = G(nodes, edges)
    directed = set()
    for (ab, c) in g.vstructures():
        for a in ab:
            directed.add((a, c))
    und = {frozenset(e) for e in g.edges if tuple(e) not in directed}

    def adj(a, b):
        return g.adjacent(a, b)

    changed = True
    while changed:
        changed = False
        for e in list(und):
            a, b = tuple(e)
            for x, y in ((a, b), (b, a)):
                # orient x -> y ?
                r1 = any((w, x) in directed and not adj(w, y) for w in g.nb[x])
                r2 = any((x, w) in directed and (w, y) in directed for w in g.nb[x])
                r3 = False
                ws = [w for w in g.nb[y] if (w, y) in directed and frozenset((x, w)) in und]
                for w1, w2 in itertools.combinations(ws, 2):
                    if not adj(w1, w2):
                        r3 = True
                if r1 or r2 or r3:
                    und.discard(e)
                    directed.add((x, y))
                    changed = True
                    break
    return directed, und


def pdag_vstructures(nodes, directed, undirected):
    adjacent = {frozenset(e) for e in directed} | set(undirected)
    out = set()
    for c in nodes:
        ps = sorted([a for (a, b) in directed if b == c], key=repr)
        for a, b in itertools.combinations(ps, 2):
            if frozenset((a, b)) not in adjacent:
                out.add((frozenset((a, b)), c))
    return out


def consistent_extensions(n, directed, undirected):
    """All DAGs over 0..n-1 with the PDAG's skeleton, containing its directed edges, with exactly its v-structures."""
    from ..gen import all_dags

    skel = {frozenset(e) for e in directed} | set(undirected)
    vs = pdag_vstructures(range(n), directed, undirected)
    res = []
    for e in all_dags(n):
        es = set(e)
        if {frozenset(x) for x in e} != skel or not set(directed) <= es:
            continue
        if G(range(n), e).vstructures() == vs:
            res.append(e)
    return res


def is_acyclic(nodes, edges):
    ch = {v: [] for v in nodes}
    indeg = {v: 0 for v in nodes}
    for u, v in edges:
        ch[u].append(v)
        indeg[v] += 1
    stack = [v for v in nodes if indeg[v] == 0]
    seen = 0
    while stack:
        u = stack.pop()
        seen += 1
        for w in ch[u]:
            indeg[w] -= 1
            if indeg[w] == 0:
                stack.append(w)
    return seen == len(list(nodes))


def selftest():
    """Meek-rule CPDAG == brute-force class intersection for every DAG on <= 4 nodes."""
    from ..gen import all_dags

    cnt = 0
    for n in (2, 3, 4):
        for e in all_dags(n):
            a = cpdag_bruteforce(n, e)
            b = cpdag_meek(range(n), e)
            if a != b:
                raise AssertionError(f"CPDAG oracle self-test failed on {e}: {a} vs {b}")
            cnt += 1
    return cnt
