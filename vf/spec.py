"""Builders: plain-data specs -> pgmpy objects.  (The oracles never see the pgmpy objects.)"""


def spec_index(spec):
    return {v: i for i, v in enumerate(spec["nodes"])}


def spec_states(spec, v):
    return spec["states"][spec_index(spec)[v]]


def spec_card(spec, v):
    return spec["card"][spec_index(spec)[v]]


def build_cpd(spec, c, explicit_states=None):
    from pgmpy.factors.discrete import TabularCPD

    idx = spec_index(spec)
    v = c["var"]
    ps = c["parents"]
    explicit = spec.get("explicit_states", True) if explicit_states is None else explicit_states
    kw = {}
    if explicit:
        kw["state_names"] = {x: list(spec["states"][idx[x]]) for x in [v] + list(ps)}
    if ps:
        return TabularCPD(
            v, spec["card"][idx[v]], c["table"], evidence=list(ps), evidence_card=[spec["card"][idx[p]] for p in ps], **kw
        )
    return TabularCPD(v, spec["card"][idx[v]], c["table"], **kw)


def build_bn(spec, with_cpds=True, cls=None):
    from pgmpy.models import BayesianNetwork

    cls = cls or BayesianNetwork
    bn = cls()
    lat = set(spec.get("latents", []))
    for v in spec["nodes"]:
        if v in lat:
            bn.add_node(v, latent=True)
        else:
            bn.add_node(v)
    for u, v in spec["edges"]:
        bn.add_edge(u, v)
    if with_cpds:
        bn.add_cpds(*[build_cpd(spec, c) for c in spec["cpds"]])
    return bn


def build_dag(spec):
    from pgmpy.base import DAG

    g = DAG()
    lat = set(spec.get("latents", []))
    for v in spec["nodes"]:
        if v in lat:
            g.add_node(v, latent=True)
        else:
            g.add_node(v)
    for u, v in spec["edges"]:
        g.add_edge(u, v)
    return g


def factor_to_named(phi):
    """pgmpy DiscreteFactor -> {frozenset((var, state_name), ...): float} using the factor's own labels."""
    import itertools

    import numpy as np

    vars_ = list(phi.variables)
    vals = np.asarray(phi.values, dtype=float)
    out = {}
    names = [phi.state_names[v] for v in vars_]
    for idxs in itertools.product(*[range(len(s)) for s in names]):
        key = frozenset((v, names[i][j]) for i, (v, j) in enumerate(zip(vars_, idxs)))
        out[key] = float(vals[idxs]) if vars_ else float(vals)
    return out


def build_factor(spec, f):
    from pgmpy.factors.discrete import DiscreteFactor

    idx = spec_index(spec)
    return DiscreteFactor(
        list(f["vars"]),
        [spec["card"][idx[v]] for v in f["vars"]],
        list(f["values"]),
        state_names={v: list(spec["states"][idx[v]]) for v in f["vars"]},
    )


def build_mn(spec):
    from pgmpy.models import MarkovNetwork

    mn = MarkovNetwork()
    mn.add_nodes_from(spec["nodes"])
    for u, v in spec["edges"]:
        mn.add_edge(u, v)
    fs = [build_factor(spec, f) for f in spec["factors"]]
    # a tied potential: one and the same factor *object* registered twice (spec["same_object"] = [i, j] says that entry j
    # of the factor list is the object of entry i; the list itself already contains both entries)
    for i, j in spec.get("same_object", []):
        fs[j] = fs[i]
    mn.add_factors(*fs)
    return mn


def build_fg(spec):
    """Factor graph assembled by hand: factor nodes are the factor objects themselves."""
    from pgmpy.models import FactorGraph

    fg = FactorGraph()
    fg.add_nodes_from(spec["nodes"])
    fs = [build_factor(spec, f) for f in spec["factors"]]
    for phi in fs:
        fg.add_node(phi)
        for v in phi.variables:
            fg.add_edge(v, phi)
    fg.add_factors(*fs)
    return fg


def build_jt(spec):
    from pgmpy.models import JunctionTree

    jt = JunctionTree()
    for cl in spec["cliques"]:
        jt.add_node(tuple(cl))
    for a, b in spec["tree"]:
        jt.add_edge(tuple(a), tuple(b))
    jt.add_factors(*[build_factor(spec, f) for f in spec["factors"]])
    return jt


def build_frame(ds, with_weights=False, row_order=None, col_order=None):
    """data_spec -> pandas DataFrame (ints, categoricals or object columns)"""
    import pandas as pd

    cols = ds["columns"]
    rows = ds["rows"] if row_order is None else [ds["rows"][i] for i in row_order]
    data = {}
    for j, c in enumerate(cols):
        vals = [ds["states"][j][r[j]] for r in rows]
        kind = ds["kinds"][j]
        if kind == "int":
            data[c] = pd.Series(vals, dtype="int64")
        elif kind == "cat":
            data[c] = pd.Categorical(vals, categories=list(ds["states"][j]))
        else:
            data[c] = pd.Series(vals, dtype=object)
    order = cols if col_order is None else col_order
    df = pd.DataFrame({c: data[c] for c in order})
    if with_weights and ds.get("weights"):
        w = ds["weights"] if row_order is None else [ds["weights"][i] for i in row_order]
        df["_weight"] = pd.Series(w, dtype="float64")
    # row labels other than 0..n-1 (a filtered, re-sorted or shifted frame): rows are rows, whatever they are called
    mode = ds.get("index_mode", "default")
    n = len(df)
    if mode == "reversed_labels":
        df.index = list(range(n - 1, -1, -1))
    elif mode == "offset":
        df.index = [100 + 3 * i for i in range(n)]
    elif mode == "strings":
        df.index = [f"r{i}" for i in range(n)]
    return df


def frame_state_names(ds):
    return {c: list(s) for c, s in zip(ds["columns"], ds["states"])}
