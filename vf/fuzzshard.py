"""Coverage-guided shard: atheris (libFuzzer) drives a sub-check's Hypothesis strategy.

usage: python -m vf.fuzzshard <prop> <sub> <tier> <k> <nshards> <seed> <outfile>      (VF_FUZZ_SECONDS = campaign length)

The fuzzer mutates a byte string; Hypothesis' `fuzz_one_input` decodes it into the same structured case the random
shards generate (so the oracle, the failure bucketing, the known-findings matching and the replay format are the ones
of `vf.shard`), and pgmpy - imported under `atheris.instrument_imports` - reports branch coverage back, so inputs that
reach new code in the library are kept and mutated further.  libFuzzer ends the process itself (no `atexit`), so the
result file is rewritten every few seconds; a campaign that is cut is still counted up to its last dump.

Two notes:
* Hypothesis 6.168's `BytestringProvider.draw_integer` forgets to add `min_value` (every bounded integer with a positive
  lower bound overruns the buffer, e.g. all `st.permutations`); it is replaced here by the intended arithmetic.
* a campaign is pinned only approximately by `-seed` (guidance says so too): the reproducible unit is the saved case.
"""
import importlib
import os
import sys
import time
import traceback

HERE = os.path.dirname(os.path.dirname(os.path.abspath(__file__)))
PGMPY_MODULES = ["pgmpy", "pgmpy.base", "pgmpy.factors.discrete", "pgmpy.factors.continuous", "pgmpy.factors.distributions", "pgmpy.models",
                 "pgmpy.inference", "pgmpy.readwrite", "pgmpy.sampling", "pgmpy.estimators", "pgmpy.independencies", "pgmpy.utils"]


def _fix_bytestring_provider():
    from hypothesis.internal.conjecture.providers import BytestringProvider

    def draw_integer(self, min_value=None, max_value=None, *, weights=None, shrink_towards=0):
        if min_value is None and max_value is None:
            min_value, max_value = -(2**127), 2**127 - 1
        elif min_value is None:
            min_value = max_value - 2**64
        elif max_value is None:
            max_value = min_value + 2**64
        if min_value == max_value:
            return min_value
        bits = (max_value - min_value).bit_length()
        value = min_value + self._draw_bits(bits)
        while value > max_value:
            value = min_value + self._draw_bits(bits)
        return value

    BytestringProvider.draw_integer = draw_integer


def main(argv):
    prop, subname, tier, k, nshards, seed, outfile = argv
    k, nshards, seed = int(k), int(nshards), int(seed)
    seconds = int(os.environ.get("VF_FUZZ_SECONDS", "60"))
    t0 = time.time()
    res = {"sub": subname, "shard": k, "hashseed": os.environ.get("PYTHONHASHSEED"), "harness_error": None, "fuzz": {"seconds": seconds}}

    def dump(final=False):
        res["wall_s"] = time.time() - t0
        tmpf = outfile + ".tmp"
        from . import core

        with open(tmpf, "w") as f:
            f.write(core.dumps(res))
        os.replace(tmpf, outfile)

    try:
        sys.path.insert(0, os.path.join(HERE, ".deps"))
        try:
            import atheris
        except ImportError:
            res["fuzz"]["unavailable"] = "atheris is not installed (setup.sh installs it from the offline wheelhouse)"
            res.update(cases=0, evals=0, nt_hashes=[], nt_count=0, classes={}, buckets={}, samples=[], answers={})
            dump()
            return 0
        from . import core, findings

        rp = core.repo_path()
        if rp not in sys.path:
            sys.path.insert(0, rp)
        import warnings

        warnings.filterwarnings("ignore")
        with atheris.instrument_imports(include=["pgmpy"], enable_loader_override=False):
            for m in PGMPY_MODULES:
                importlib.import_module(m)
        core.setup_repo_import()
        from hypothesis import HealthCheck, given, settings

        from .shard import Collector

        _fix_bytestring_provider()
        mod = importlib.import_module(f"vf.props.{prop.lower()}")
        sub = {s.name: s for s in mod.SUBCHECKS}[subname]
        col = Collector(prop, sub, mod)
        state = {"calls": 0, "last": 0.0}

        @settings(database=None, deadline=None, suppress_health_check=list(HealthCheck))
        @given(sub.strategy(tier))
        def t(case):
            col.run_case(case)

        fuzz = t.hypothesis.fuzz_one_input

        def snapshot():
            res.update(cases=col.cases, evals=col.evals, nt_hashes=sorted(col.nt_hashes), nt_count=col.nt_count,
                       classes=dict(col.classes, coverage_guided_cases=col.cases), buckets=col.buckets, samples=col.samples, answers={})
            res["fuzz"].update(executions=state["calls"], decoded_cases=col.cases)

        def one(data):
            state["calls"] += 1
            try:
                fuzz(data)
            except BaseException as e:  # noqa: BLE001 - a harness fault: report it and stop the campaign
                snapshot()
                res["harness_error"] = "".join(traceback.format_exception(type(e), e, e.__traceback__))[-6000:]
                dump()
                os._exit(3)
            now = time.time()
            if now - state["last"] > 3 or now - t0 > seconds - 2:
                state["last"] = now
                snapshot()
                dump()

        snapshot()
        dump()
        cdir = os.path.join(os.environ.get("VF_TMP", "."), "corpus")
        os.makedirs(cdir, exist_ok=True)
        args = [sys.argv[0], f"-max_total_time={seconds}", f"-seed={(seed * 1000003 + k) % (2**31) or 1}", "-len_control=0", "-max_len=16384",
                "-timeout=600", "-rss_limit_mb=6000", "-verbosity=0", "-print_final_stats=0", cdir]
        atheris.Setup(args, one)
        atheris.Fuzz()
    except BaseException as e:  # noqa: BLE001
        res["harness_error"] = "".join(traceback.format_exception(type(e), e, e.__traceback__))[-6000:]
        res.setdefault("cases", 0)
        for key, v in (("evals", 0), ("nt_hashes", []), ("nt_count", 0), ("classes", {}), ("buckets", {}), ("samples", []), ("answers", {})):
            res.setdefault(key, v)
        dump()
    return 0


if __name__ == "__main__":
    sys.exit(main(sys.argv[1:]))
