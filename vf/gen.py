"""Hypothesis strategies producing plain-data specs (construction, not rejection) and exhaustive enumerators."""
import itertools

from hypothesis import strategies as st

# ----------------------------------------------------------------------------------------------
# names
# ----------------------------------------------------------------------------------------------
STR_NAMES = ["A", "B", "C", "D", "E", "F", "G", "H", "I", "J", "K", "L"]
WORD_NAMES = ["rain", "x1", "Node_2", "grade", "zeta", "b", "Alpha", "q9", "var", "tab", "nodeX", "prob1"]
KW_NAMES = [
    "variable_a",
    "myprobability",
    "network1",
    "tableX",
    "default_",
    "property2",
    "type",
    "node",
    "potentials",
    "data",
    "states",
    "net",
]
INT_NAMES = list(range(0, 12))
TUPLE_NAMES = [("a", i) for i in range(6)] + [("b", i) for i in range(6)]  # mutually comparable (pgmpy sorts names)

NAME_POOLS = {"str": STR_NAMES, "word": WORD_NAMES, "kw": KW_NAMES, "int": INT_NAMES, "tuple": TUPLE_NAMES}


@st.composite
def node_names(draw, n, kinds=("str", "word", "int", "tuple")):
    kind = draw(st.sampled_from(list(kinds)))
    pool = NAME_POOLS[kind]
    names = draw(st.permutations(pool))[:n]
    return kind, list(names)


STATE_KINDS = ("range", "offset", "perm", "str", "mixed", "tuple")


def make_states(kind, k, perm):
    """state list of length k; `perm` is a permutation of range(k) used by the 'perm' kind."""
    if kind == "range":
        return list(range(k))
    if kind == "offset":
        return list(range(1, k + 1))
    if kind == "perm":
        return [perm[i] for i in range(k)]
    if kind == "str":
        return [f"s{i}" for i in perm]
    if kind == "mixed":
        return [(f"m{i}" if i % 2 == 0 else i + 10) for i in perm]
    if kind == "tuple":
        return [("t", i) for i in perm]
    raise ValueError(kind)


@st.composite
def states_for(draw, k, kinds=STATE_KINDS):
    kind = draw(st.sampled_from(list(kinds)))
    perm = draw(st.permutations(list(range(k))))
    return kind, make_states(kind, k, list(perm))


# ----------------------------------------------------------------------------------------------
# DAG shapes
# ----------------------------------------------------------------------------------------------
SHAPES = ("random", "random", "dense", "chain", "fork", "collider", "two_parts", "empty", "sparse")


@st.composite
def dag_edges(draw, n, max_parents=3, shape=None):
    """edges (i, j) with i < j over topological positions 0..n-1 (then relabelled by the caller)."""
    shape = shape or draw(st.sampled_from(SHAPES))
    pairs = [(i, j) for j in range(n) for i in range(j)]
    if shape == "empty" or n == 1:
        mask = [False] * len(pairs)
    elif shape == "chain":
        mask = [j == i + 1 for (i, j) in pairs]
    elif shape == "fork":
        mask = [i == 0 for (i, j) in pairs]
    elif shape == "collider":
        mask = [j == n - 1 for (i, j) in pairs]
    elif shape == "dense":
        mask = [True] * len(pairs)
    elif shape == "two_parts":
        half = max(1, n // 2)
        mask = [draw(st.booleans()) and ((i < half) == (j < half)) for (i, j) in pairs]
    elif shape == "sparse":
        mask = [draw(st.integers(0, 3)) == 0 for _ in pairs]
    else:
        mask = [draw(st.booleans()) for _ in pairs]
    edges = [p for p, m in zip(pairs, mask) if m]
    # respect max_parents by dropping the earliest extra parents
    out = []
    cnt = {}
    for i, j in reversed(edges):
        if cnt.get(j, 0) < max_parents:
            out.append((i, j))
            cnt[j] = cnt.get(j, 0) + 1
    out.reverse()
    return shape, out


@st.composite
def dag_spec(draw, min_nodes=1, max_nodes=6, name_kinds=("str", "word", "int", "tuple"), max_parents=3, latents=False):
    n = draw(st.integers(min_nodes, max_nodes))
    kind, names = draw(node_names(n, name_kinds))
    topo = list(draw(st.permutations(names)))  # topo[i] is the node at topological position i
    shape, e = draw(dag_edges(n, max_parents))
    edges = [(topo[i], topo[j]) for i, j in e]
    edges = list(draw(st.permutations(edges))) if edges else []
    spec = {"name_kind": kind, "shape": shape, "nodes": names, "topo": topo, "edges": [list(x) for x in edges]}
    if latents:
        spec["latents"] = [v for v in names if draw(st.integers(0, 4)) == 0]
    else:
        spec["latents"] = []
    return spec


# ----------------------------------------------------------------------------------------------
# CPD tables
# ----------------------------------------------------------------------------------------------
COL_KINDS = ("dense", "dense", "dense", "zeros", "onehot", "uniform", "tiny")


@st.composite
def column(draw, k, col_kinds=COL_KINDS):
    """one conditional distribution over k states, normalised by construction."""
    kind = draw(st.sampled_from(list(col_kinds))) if k > 1 else "uniform"
    if kind == "uniform":
        return [1.0 / k] * k
    if kind == "onehot":
        h = draw(st.integers(0, k - 1))
        return [1.0 if i == h else 0.0 for i in range(k)]
    if kind == "zeros":
        w = [draw(st.integers(0, 6)) for _ in range(k)]
        w = [x if x > 2 else 0 for x in w]
        if sum(w) == 0:
            w[draw(st.integers(0, k - 1))] = 1
    elif kind == "tiny":
        w = [10.0 ** (-draw(st.integers(0, 12))) * draw(st.integers(1, 9)) for _ in range(k)]
    else:
        w = [draw(st.integers(1, 1000)) for _ in range(k)]
    s = float(sum(w))
    col = [x / s for x in w]
    return col


CARD_POOL = [1, 2, 2, 2, 2, 3, 3, 3, 4, 4]


@st.composite
def bn_spec(
    draw,
    min_nodes=1,
    max_nodes=6,
    name_kinds=("str", "word", "int", "tuple"),
    state_kinds=STATE_KINDS,
    max_card=4,
    min_card=1,
    max_parents=3,
    latents=False,
    col_kinds=COL_KINDS,
    max_cells=5000,
):
    g = draw(dag_spec(min_nodes, max_nodes, name_kinds, max_parents, latents))
    nodes = g["nodes"]
    n = len(nodes)
    hi = max_card if n <= 4 else min(max_card, 3)
    card = {}
    states = {}
    cells = 1
    for i, v in enumerate(nodes):
        k = draw(st.sampled_from([c for c in CARD_POOL if min_card <= c <= hi]))
        if cells * k > max_cells:
            k = max(min_card, 1)
        cells *= k
        _, sts = draw(states_for(k, state_kinds))
        card[i] = k
        states[i] = sts
    idx = {v: i for i, v in enumerate(nodes)}
    parents = {v: [] for v in nodes}
    for u, v in g["edges"]:
        parents[v].append(u)
    cpds = []
    for v in draw(st.permutations(nodes)):  # order in which CPDs are added
        ps = list(draw(st.permutations(parents[v])))  # declared parent order
        ncol = 1
        for p in ps:
            ncol *= card[idx[p]]
        k = card[idx[v]]
        cols = [draw(column(k, col_kinds)) for _ in range(ncol)]
        table = [[cols[j][i] for j in range(ncol)] for i in range(k)]
        cpds.append({"var": v, "parents": ps, "table": table})
    g["card"] = [card[i] for i in range(n)]
    g["states"] = [states[i] for i in range(n)]
    g["cpds"] = cpds
    g["explicit_states"] = draw(st.booleans()) or any(states[i] != list(range(card[i])) for i in range(n))
    return g


# ----------------------------------------------------------------------------------------------
# exhaustive enumeration of labelled DAGs
# ----------------------------------------------------------------------------------------------
def _acyclic(n, adj):
    # Kahn
    indeg = [0] * n
    for u in range(n):
        for v in adj[u]:
            indeg[v] += 1
    stack = [u for u in range(n) if indeg[u] == 0]
    seen = 0
    while stack:
        u = stack.pop()
        seen += 1
        for v in adj[u]:
            indeg[v] -= 1
            if indeg[v] == 0:
                stack.append(v)
    return seen == n


_DAG_CACHE = {}


def all_dags(n):
    """All labelled DAGs on nodes 0..n-1 as tuples of edges (u, v).  n=3: 25, n=4: 543, n=5: 29281."""
    if n in _DAG_CACHE:
        return _DAG_CACHE[n]
    pairs = [(i, j) for i in range(n) for j in range(i + 1, n)]
    res = []
    for choice in itertools.product((0, 1, 2), repeat=len(pairs)):
        adj = [[] for _ in range(n)]
        edges = []
        for (i, j), c in zip(pairs, choice):
            if c == 1:
                adj[i].append(j)
                edges.append((i, j))
            elif c == 2:
                adj[j].append(i)
                edges.append((j, i))
        if _acyclic(n, adj):
            res.append(tuple(edges))
    _DAG_CACHE[n] = res
    return res
