"""Hypothesis strategies producing plain-data specs (construction, not rejection) and exhaustive enumerators."""
import itertools

from hypothesis import strategies as st

# ----------------------------------------------------------------------------------------------
# names
# ----------------------------------------------------------------------------------------------
STR_NAMES = ["A", "B", "C", "D", "E", "F", "G", "H", "I", "J", "K", "L"]
WORD_NAMES = ["rain", "x1", "Node_2", "grade", "zeta", "b", "Alpha", "q9", "var", "tab", "nodeX", "prob1"]
KW_NAMES = [
    "variable_a",
    "myprobability",
    "network1",
    "tableX",
    "default_",
    "property2",
    "type",
    "node",
    "potentials",
    "data",
    "states",
    "net",
]
INT_NAMES = list(range(0, 12))
TUPLE_NAMES = [("a", i) for i in range(6)] + [("b", i) for i in range(6)]  # mutually comparable (pgmpy sorts names)

NAME_POOLS = {"str": STR_NAMES, "word": WORD_NAMES, "kw": KW_NAMES, "int": INT_NAMES, "tuple": TUPLE_NAMES}


@st.composite
def node_names(draw, n, kinds=("str", "word", "int", "tuple")):
    kind = draw(st.sampled_from(list(kinds)))
    pool = NAME_POOLS[kind]
    names = draw(st.permutations(pool))[:n]
    return kind, list(names)


STATE_KINDS = ("range", "offset", "perm", "str", "mixed", "tuple")


def make_states(kind, k, perm):
    """state list of length k; `perm` is a permutation of range(k) used by the 'perm' kind."""
    if kind == "range":
        return list(range(k))
    if kind == "offset":
        return list(range(1, k + 1))
    if kind == "perm":
        return [perm[i] for i in range(k)]
    if kind == "str":
        return [f"s{i}" for i in perm]
    if kind == "mixed":
        return [(f"m{i}" if i % 2 == 0 else i + 10) for i in perm]
    if kind == "tuple":
        return [("t", i) for i in perm]
    raise ValueError(kind)


@st.composite
def states_for(draw, k, kinds=STATE_KINDS):
    kind = draw(st.sampled_from(list(kinds)))
    perm = draw(st.permutations(list(range(k))))
    return kind, make_states(kind, k, list(perm))


# ----------------------------------------------------------------------------------------------
# DAG shapes
# ----------------------------------------------------------------------------------------------
SHAPES = ("random", "random", "dense", "chain", "fork", "collider", "two_parts", "empty", "sparse")


@st.composite
def dag_edges(draw, n, max_parents=3, shape=None):
    """edges (i, j) with i < j over topological positions 0..n-1 (then relabelled by the caller)."""
    shape = shape or draw(st.sampled_from(SHAPES))
    pairs = [(i, j) for j in range(n) for i in range(j)]
    if shape == "empty" or n == 1:
        mask = [False] * len(pairs)
    elif shape == "chain":
        mask = [j == i + 1 for (i, j) in pairs]
    elif shape == "fork":
        mask = [i == 0 for (i, j) in pairs]
    elif shape == "collider":
        mask = [j == n - 1 for (i, j) in pairs]
    elif shape == "dense":
        mask = [True] * len(pairs)
    elif shape == "two_parts":
        half = max(1, n // 2)
        mask = [draw(st.booleans()) and ((i < half) == (j < half)) for (i, j) in pairs]
    elif shape == "sparse":
        mask = [draw(st.integers(0, 3)) == 0 for _ in pairs]
    else:
        mask = [draw(st.booleans()) for _ in pairs]
    edges = [p for p, m in zip(pairs, mask) if m]
    # respect max_parents by dropping the earliest extra parents
    out = []
    cnt = {}
    for i, j in reversed(edges):
        if cnt.get(j, 0) < max_parents:
            out.append((i, j))
            cnt[j] = cnt.get(j, 0) + 1
    out.reverse()
    return shape, out


@st.composite
def dag_spec(draw, min_nodes=1, max_nodes=6, name_kinds=("str", "word", "int", "tuple"), max_parents=3, latents=False, connected=False):
    n = draw(st.integers(min_nodes, max_nodes))
    kind, names = draw(node_names(n, name_kinds))
    topo = list(draw(st.permutations(names)))  # topo[i] is the node at topological position i
    shape, e = draw(dag_edges(n, max_parents))
    if connected:
        comps = _components(list(range(n)), e)
        for c1, c2 in zip(comps, comps[1:]):
            a, b = min(c1), min(c2)
            e.append((min(a, b), max(a, b)))
    edges = [(topo[i], topo[j]) for i, j in e]
    edges = list(draw(st.permutations(edges))) if edges else []
    spec = {"name_kind": kind, "shape": shape, "nodes": names, "topo": topo, "edges": [list(x) for x in edges]}
    if latents:
        spec["latents"] = [v for v in names if draw(st.integers(0, 4)) == 0]
    else:
        spec["latents"] = []
    return spec


# ----------------------------------------------------------------------------------------------
# CPD tables
# ----------------------------------------------------------------------------------------------
COL_KINDS = ("dense", "dense", "dense", "zeros", "onehot", "uniform", "tiny")


@st.composite
def column(draw, k, col_kinds=COL_KINDS):
    """one conditional distribution over k states, normalised by construction."""
    kind = draw(st.sampled_from(list(col_kinds))) if k > 1 else "uniform"
    if kind == "uniform":
        return [1.0 / k] * k
    if kind == "onehot":
        h = draw(st.integers(0, k - 1))
        return [1.0 if i == h else 0.0 for i in range(k)]
    if kind == "zeros":
        w = [draw(st.integers(0, 6)) for _ in range(k)]
        w = [x if x > 2 else 0 for x in w]
        if sum(w) == 0:
            w[draw(st.integers(0, k - 1))] = 1
    elif kind == "tiny":
        w = [10.0 ** (-draw(st.integers(0, 12))) * draw(st.integers(1, 9)) for _ in range(k)]
    else:
        w = [draw(st.integers(1, 1000)) for _ in range(k)]
    s = float(sum(w))
    col = [x / s for x in w]
    return col


CARD_POOL = [1, 2, 2, 2, 2, 3, 3, 3, 4, 4]


@st.composite
def bn_spec(
    draw,
    min_nodes=1,
    max_nodes=6,
    name_kinds=("str", "word", "int", "tuple"),
    state_kinds=STATE_KINDS,
    max_card=4,
    min_card=1,
    max_parents=3,
    latents=False,
    col_kinds=COL_KINDS,
    max_cells=5000,
    connected=False,
    cap_cards=True,
    card_pool=None,
):
    g = draw(dag_spec(min_nodes, max_nodes, name_kinds, max_parents, latents, connected))
    nodes = g["nodes"]
    n = len(nodes)
    hi = max_card if (n <= 4 or not cap_cards) else min(max_card, 3)
    card = {}
    states = {}
    cells = 1
    for i, v in enumerate(nodes):
        k = draw(st.sampled_from(list(card_pool) if card_pool else [c for c in CARD_POOL if min_card <= c <= hi]))
        if cells * k > max_cells:
            k = max(min_card, 1)
        cells *= k
        _, sts = draw(states_for(k, state_kinds))
        card[i] = k
        states[i] = sts
    idx = {v: i for i, v in enumerate(nodes)}
    parents = {v: [] for v in nodes}
    for u, v in g["edges"]:
        parents[v].append(u)
    cpds = []
    for v in draw(st.permutations(nodes)):  # order in which CPDs are added
        ps = list(draw(st.permutations(parents[v])))  # declared parent order
        ncol = 1
        for p in ps:
            ncol *= card[idx[p]]
        k = card[idx[v]]
        # twins: a node with the same parents and cardinality as an earlier one sometimes gets the very same table
        # (identical sensors) - equal factors are a class of their own for engines that keep factors in sets
        twin = next((c for c in cpds if set(c["parents"]) == set(ps) and ps and len(c["table"]) == k), None)
        if twin is not None and draw(st.integers(0, 1)) == 0:
            cpds.append({"var": v, "parents": list(twin["parents"]), "table": [list(r) for r in twin["table"]]})
            g["has_twin_cpds"] = True
            continue
        cols = [draw(column(k, col_kinds)) for _ in range(ncol)]
        table = [[cols[j][i] for j in range(ncol)] for i in range(k)]
        cpds.append({"var": v, "parents": ps, "table": table})
    g["card"] = [card[i] for i in range(n)]
    g["states"] = [states[i] for i in range(n)]
    g["cpds"] = cpds
    g["explicit_states"] = draw(st.booleans()) or any(states[i] != list(range(card[i])) for i in range(n))
    return g


# ----------------------------------------------------------------------------------------------
# exhaustive enumeration of labelled DAGs
# ----------------------------------------------------------------------------------------------
def _acyclic(n, adj):
    # Kahn
    indeg = [0] * n
    for u in range(n):
        for v in adj[u]:
            indeg[v] += 1
    stack = [u for u in range(n) if indeg[u] == 0]
    seen = 0
    while stack:
        u = stack.pop()
        seen += 1
        for v in adj[u]:
            indeg[v] -= 1
            if indeg[v] == 0:
                stack.append(v)
    return seen == n


_DAG_CACHE = {}


def all_dags(n):
    """All labelled DAGs on nodes 0..n-1 as tuples of edges (u, v).  n=3: 25, n=4: 543, n=5: 29281."""
    if n in _DAG_CACHE:
        return _DAG_CACHE[n]
    pairs = [(i, j) for i in range(n) for j in range(i + 1, n)]
    res = []
    for choice in itertools.product((0, 1, 2), repeat=len(pairs)):
        adj = [[] for _ in range(n)]
        edges = []
        for (i, j), c in zip(pairs, choice):
            if c == 1:
                adj[i].append(j)
                edges.append((i, j))
            elif c == 2:
                adj[j].append(i)
                edges.append((j, i))
        if _acyclic(n, adj):
            res.append(tuple(edges))
    _DAG_CACHE[n] = res
    return res


# ----------------------------------------------------------------------------------------------
# Markov networks / factor graphs / junction trees
# ----------------------------------------------------------------------------------------------
@st.composite
def factor_values(draw, n, zero_rate=8):
    vals = []
    for _ in range(n):
        z = draw(st.integers(0, zero_rate))
        if z == 0:
            vals.append(0.0)
        elif z == 1:
            vals.append(10.0 ** (-draw(st.integers(1, 5))))
        else:
            vals.append(draw(st.integers(1, 500)) / 100.0)
    return vals


def _components(nodes, edges):
    comp = {v: v for v in nodes}

    def find(x):
        while comp[x] != x:
            comp[x] = comp[comp[x]]
            x = comp[x]
        return x

    for u, v in edges:
        comp[find(u)] = find(v)
    groups = {}
    for v in nodes:
        groups.setdefault(find(v), []).append(v)
    return list(groups.values())


@st.composite
def mn_spec(draw, min_nodes=2, max_nodes=6, connected=True, name_kinds=("str", "word", "int", "tuple"), state_kinds=STATE_KINDS,
            max_card=3, min_card=1, duplicates=True, shape=None):
    n = draw(st.integers(min_nodes, max_nodes))
    kind, names = draw(node_names(n, name_kinds))
    card, states = [], []
    for _ in range(n):
        c = draw(st.sampled_from([k for k in [1, 2, 2, 2, 3, 3] if min_card <= k <= max_card]))
        _, s = draw(states_for(c, state_kinds))
        card.append(c)
        states.append(s)
    shape = shape or draw(st.sampled_from(["random", "random", "cycle", "tree", "dense"]))
    scopes = []
    if shape == "cycle" and n >= 4:
        order = list(draw(st.permutations(names)))
        m = n - 1 if (not connected and n >= 5 and draw(st.booleans())) else n  # leave one variable isolated
        scopes = [[order[i], order[(i + 1) % m]] for i in range(m)]
    elif shape == "tree":
        order = list(draw(st.permutations(names)))
        for i in range(1, n):
            scopes.append([order[draw(st.integers(0, i - 1))], order[i]])
    elif shape == "dense":
        order = list(draw(st.permutations(names)))
        scopes = [[a, b] for i, a in enumerate(order) for b in order[i + 1 :] if draw(st.integers(0, 3)) > 0]
    else:
        for _ in range(draw(st.integers(1, n + 1))):
            k = draw(st.sampled_from([1, 2, 2, 2, 3]))
            scopes.append(list(draw(st.permutations(names)))[: min(k, n)])
    # every node must be covered by a factor
    covered = {v for s in scopes for v in s}
    for v in names:
        if v not in covered:
            scopes.append([v])
    edges = []
    for s in scopes:
        for i, a in enumerate(s):
            for b in s[i + 1 :]:
                if [a, b] not in edges and [b, a] not in edges:
                    edges.append([a, b])
    if connected:
        comps = _components(names, edges)
        for c1, c2 in zip(comps, comps[1:]):
            scopes.append([c1[0], c2[0]])
            edges.append([c1[0], c2[0]])
    if duplicates and draw(st.integers(0, 2)) == 0:
        k = draw(st.integers(0, len(scopes) - 1))
        scopes.append(list(reversed(scopes[k])) if draw(st.booleans()) else list(scopes[k]))
        dup_of = k
    else:
        dup_of = None
    factors = []
    for i, s in enumerate(scopes):
        m = 1
        for v in s:
            m *= card[names.index(v)]
        if dup_of is not None and i == len(scopes) - 1:
            src = factors[dup_of]
            if s == src["vars"]:
                vals = list(src["values"])
            else:
                # same named values, reversed axis order
                cs = [card[names.index(v)] for v in src["vars"]]
                import itertools as _it

                table = {idx: src["values"][p] for p, idx in enumerate(_it.product(*[range(c) for c in cs]))}
                vals = [table[tuple(reversed(idx))] for idx in _it.product(*[range(c) for c in reversed(cs)])]
        else:
            vals = draw(factor_values(m))
            if all(x == 0.0 for x in vals):
                vals[0] = 1.0
        factors.append({"vars": s, "values": vals})
    extra = []
    if draw(st.integers(0, 3)) == 0 and shape == "random":
        a, b = list(draw(st.permutations(names)))[:2] if n >= 2 else (names[0], names[0])
        if a != b and [a, b] not in edges and [b, a] not in edges:
            extra = [[a, b]]
    edges = list(draw(st.permutations(edges + extra))) if edges + extra else []
    spec = {"name_kind": kind, "shape": shape, "nodes": names, "card": card, "states": states, "edges": [list(e) for e in edges],
            "factors": factors, "has_duplicate": dup_of is not None}
    # the joint must have positive mass
    from .oracle.joint import Joint

    if Joint.from_factors(names, states, factors).total() <= 0:
        for f in factors:
            f["values"] = [x if x > 0 else 1.0 for x in f["values"]]
        spec["zeros_removed"] = True
    return spec


@st.composite
def jt_spec(draw, max_cliques=4, name_kinds=("str", "word", "int", "tuple"), state_kinds=STATE_KINDS):
    """A clique tree satisfying the running-intersection property by construction: every clique shares a
    non-empty subset of its parent's variables and introduces new variables."""
    k = draw(st.integers(1, max_cliques))
    pool_kind, pool = draw(node_names(8, name_kinds))
    used = 0
    cliques = []
    tree = []
    for i in range(k):
        if i == 0:
            m = draw(st.integers(1, 3))
            cl = pool[used : used + m]
            used += m
        else:
            p = draw(st.integers(0, i - 1))
            shared = [v for v in cliques[p] if draw(st.booleans())] or cliques[p][:1]
            m = draw(st.integers(1, 2))
            if used + m > len(pool):
                m = len(pool) - used
            if m <= 0:
                break
            cl = shared + pool[used : used + m]
            used += m
            tree.append([p, i])
        cliques.append(list(draw(st.permutations(cl))))
    nodes = pool[:used]
    card, states = [], []
    for _ in nodes:
        c = draw(st.sampled_from([1, 2, 2, 3]))
        _, s = draw(states_for(c, state_kinds))
        card.append(c)
        states.append(s)
    factors = []
    for cl in cliques:
        m = 1
        for v in cl:
            m *= card[nodes.index(v)]
        vals = draw(factor_values(m, zero_rate=12))
        if all(x == 0.0 for x in vals):
            vals[0] = 1.0
        factors.append({"vars": cl, "values": vals})
    from .oracle.joint import Joint

    if Joint.from_factors(nodes, states, factors).total() <= 0:
        for f in factors:
            f["values"] = [x if x > 0 else 1.0 for x in f["values"]]
    return {"name_kind": pool_kind, "nodes": nodes, "card": card, "states": states, "cliques": cliques,
            "tree": [[cliques[a], cliques[b]] for a, b in tree], "factors": factors}


def drop_equal_factors(spec):
    """factors of the spec without later factors that equal an earlier one by value (same scope, same named
    values): a factor graph keys its factor nodes by factor equality and cannot hold two of them."""
    import itertools as _it

    seen, out = [], []
    for f in spec["factors"]:
        cs = [spec["card"][spec["nodes"].index(v)] for v in f["vars"]]
        named = {frozenset(zip(f["vars"], idx)): f["values"][p] for p, idx in enumerate(_it.product(*[range(c) for c in cs]))}
        if any(named.keys() == o.keys() and all(abs(named[k] - o[k]) <= 1e-8 + 1e-5 * abs(o[k]) for k in o) for o in seen):
            continue
        seen.append(named)
        out.append(f)
    return out


# ----------------------------------------------------------------------------------------------
# discrete data sets
# ----------------------------------------------------------------------------------------------
DATA_COLS = ["A", "B", "C", "D", "E", "F"]


@st.composite
def data_spec(draw, min_cols=2, max_cols=5, min_rows=1, max_rows=40, max_card=4, min_card=1, kinds=("int", "cat", "obj"),
              extra_states=True, weights=False, names=None, dependent=False):
    """{"columns", "states" (declared, sorted), "kind" per column, "rows" (state indexes), "weights"}.
    Declared state lists are sorted (pgmpy sorts observed states itself) and may contain states that never occur."""
    n = draw(st.integers(min_cols, max_cols))
    cols = list(names[:n]) if names else list(draw(st.permutations(DATA_COLS)))[:n]
    nrows = draw(st.integers(min_rows, max_rows))
    kind = draw(st.sampled_from(list(kinds)))
    states, ckinds = [], []
    for _ in cols:
        k = draw(st.sampled_from([c for c in [1, 2, 2, 2, 3, 3, 4] if min_card <= c <= max_card]))
        ck = kind if kind != "mixed" else draw(st.sampled_from(["int", "cat", "obj"]))
        if ck == "int":
            base = draw(st.sampled_from([0, 0, 1, 5]))
            sts = [base + i for i in range(k)]
        else:
            sts = sorted([f"s{i}" for i in range(k)])
        states.append(sts)
        ckinds.append(ck)
    sparse = draw(st.booleans())
    rows = []
    for r in range(nrows):
        row = []
        for j, sts in enumerate(states):
            k = len(sts)
            if dependent and j > 0 and draw(st.integers(0, 3)) > 0:
                row.append(row[j - 1] % k)  # noisy copy of the previous column
            elif sparse:
                row.append(draw(st.integers(0, max(0, k - 2))) if extra_states and draw(st.integers(0, 4)) > 0 else draw(st.integers(0, k - 1)))
            else:
                row.append(draw(st.integers(0, k - 1)))
        rows.append(row)
    w = None
    if weights:
        w = [draw(st.integers(1, 4)) for _ in range(nrows)]
    return {"columns": cols, "states": states, "kinds": ckinds, "rows": rows, "weights": w,
            "pass_state_names": bool(extra_states) and draw(st.booleans()),
            "index_mode": draw(st.sampled_from(["default", "default", "default", "reversed_labels", "offset", "strings"]))}
