"""Entry point:  python -m vf.runner <Cxx> quick|thorough   |   python -m vf.runner <Cxx> --replay <file>

Exit codes: 0 property held on everything explored (known findings printed), 1 violation (with a
`VIOLATION property=<id> replay=<path>` line), 2 harness error.
"""
import importlib
import json
import os
import shutil
import subprocess
import sys
import tempfile
import time
from collections import Counter
from concurrent.futures import ThreadPoolExecutor

from . import core, findings

HERE = findings.HERE
OUT = os.environ.get("VF_OUT") or HERE  # replays/ and evidence/ go here (mutant runs redirect it)
HASHSEEDS = [0, 1, 2, 3, 4, 5, 6, 7]
MAXPAR = int(os.environ.get("VERIF_JOBS", "16"))
SHARD_TIMEOUT = {"quick": 900, "thorough": 7200}


def deep_close(a, b, tol=1e-9):
    if isinstance(a, float) or isinstance(b, float):
        try:
            return core.close(float(a), float(b), tol, tol)
        except (TypeError, ValueError):
            return False
    if isinstance(a, dict) and isinstance(b, dict):
        return a.keys() == b.keys() and all(deep_close(a[k], b[k], tol) for k in a)
    if isinstance(a, (list, tuple)) and isinstance(b, (list, tuple)):
        return len(a) == len(b) and all(deep_close(x, y, tol) for x, y in zip(a, b))
    return a == b


def run_shard(prop, sub, tier, k, nshards, seed, tmp, hashseed, fuzz_seconds=0):
    out = os.path.join(tmp, f"{sub}.{k}.json")
    env = dict(os.environ)
    env["PYTHONHASHSEED"] = str(hashseed)
    env["PYTHONPATH"] = HERE + os.pathsep + env.get("PYTHONPATH", "")
    env["PYTHONDONTWRITEBYTECODE"] = "1"
    env["VF_TMP"] = os.path.join(tmp, f"w.{sub}.{k}")
    os.makedirs(env["VF_TMP"], exist_ok=True)
    for v in ("OMP_NUM_THREADS", "OPENBLAS_NUM_THREADS", "MKL_NUM_THREADS"):
        env[v] = "1"
    cmd = [sys.executable, "-m", "vf.fuzzshard" if fuzz_seconds else "vf.shard", prop, sub, tier, str(k), str(nshards), str(seed), out]
    if fuzz_seconds:
        env["VF_FUZZ_SECONDS"] = str(fuzz_seconds)
    proc = subprocess.Popen(cmd, env=env, cwd=HERE, stdout=subprocess.PIPE, stderr=subprocess.PIPE, text=True)
    try:
        so, se = proc.communicate(timeout=(fuzz_seconds + 180) if fuzz_seconds else int(os.environ.get("VF_SHARD_TIMEOUT", SHARD_TIMEOUT[tier])))
    except subprocess.TimeoutExpired:
        if fuzz_seconds and os.path.exists(out):  # a campaign that did not stop by itself: keep what it dumped last
            proc.kill()
            proc.communicate()
            with open(out) as f:
                r = core.loads(f.read())
            r["hashseed"] = str(hashseed)
            return r
        where = ""
        try:
            import signal
            import time as _t

            proc.send_signal(signal.SIGUSR1)
            _t.sleep(2)
            with open(os.path.join(env["VF_TMP"], "stack.txt")) as f:
                where = f.read()[-3000:]
        except Exception:  # noqa: BLE001
            pass
        proc.kill()
        proc.communicate()
        return {"sub": sub, "shard": k, "hashseed": str(hashseed), "inconclusive": "time box expired", "stack": where}
    p = subprocess.CompletedProcess(cmd, proc.returncode, so, se)
    if not os.path.exists(out):
        return {
            "sub": sub,
            "shard": k,
            "hashseed": str(hashseed),
            "harness_error": f"shard produced no result (rc={p.returncode})\n{p.stderr[-4000:]}",
        }
    with open(out) as f:
        r = core.loads(f.read())
    r["hashseed"] = str(hashseed)
    return r


def replay(prop, path):
    with open(path) as f:
        rec = core.loads(f.read())
    want = str(rec.get("hashseed", "0"))
    if os.environ.get("PYTHONHASHSEED") != want:
        env = dict(os.environ, PYTHONHASHSEED=want)
        env["PYTHONPATH"] = HERE + os.pathsep + env.get("PYTHONPATH", "")
        return subprocess.call([sys.executable, "-m", "vf.runner", prop, "--replay", path], env=env, cwd=HERE)
    core.setup_repo_import()
    mod = importlib.import_module(f"vf.props.{prop.lower()}")
    sub = {s.name: s for s in mod.SUBCHECKS}[rec["subcheck"]]
    out = core.Out()
    sub.check(rec["case"], out)
    known = findings.load(prop)
    preds = getattr(mod, "PREDICATES", {})
    bad = 0
    for label, detail in out.failures:
        kid = findings.match(known, preds, sub.name, label, rec["case"])
        print(f"replay: sub={sub.name} label={label} known={kid}\n        {detail}")
        if kid is None:
            bad += 1
        else:
            print(f"KNOWN-FINDING: property={prop} {kid}")
    if bad:
        print(f"VIOLATION property={prop} replay={path}")
        return 1
    print(f"replay: no unlisted failure for {prop} on {path}")
    return 0


def main(argv):
    if len(argv) >= 3 and argv[1] == "--replay":
        return replay(argv[0], argv[2])
    prop = argv[0]
    tier = argv[1] if len(argv) > 1 else os.environ.get("VERIF_TIER", "quick")
    seed = int(os.environ.get("VERIF_SEED", "1"))
    t0 = time.time()
    sys.path.insert(0, HERE)
    mod = importlib.import_module(f"vf.props.{prop.lower()}")
    only = os.environ.get("VF_ONLY")
    subs = [s for s in mod.SUBCHECKS if not only or s.name in only.split(",")]
    tmp = tempfile.mkdtemp(prefix=f"vf-{prop}-")
    results = []
    try:
        jobs = []
        for s in subs:
            ns = s.shards[tier]
            for k in range(ns):
                hs = HASHSEEDS[k % len(HASHSEEDS)] if k % len(HASHSEEDS) != 2 else seed % (2**32)
                jobs.append((prop, s.name, tier, k, ns, seed, tmp, hs))
            nf, secs = s.fuzz.get(tier, (0, 0))
            if os.environ.get("VF_FUZZ_SECONDS"):
                secs = int(os.environ["VF_FUZZ_SECONDS"]) if nf else 0
            for j in range(nf if secs else 0):
                k = ns + j
                jobs.append((prop, s.name, tier, k, ns + nf, seed, tmp, HASHSEEDS[k % len(HASHSEEDS)], secs))
        with ThreadPoolExecutor(MAXPAR) as ex:
            results = list(ex.map(lambda j: run_shard(*j), jobs))
    finally:
        shutil.rmtree(tmp, ignore_errors=True)

    harness_errors = [r for r in results if r.get("harness_error")]
    inconclusive = [f"{r['sub']}#{r['shard']}" for r in results if r.get("inconclusive")]
    for r in results:
        if r.get("inconclusive") and r.get("stack"):
            print(f"  inconclusive shard {r['sub']}#{r['shard']}: time box expired; Python stack at that moment:\n" + r["stack"], file=sys.stderr)
    ok = [r for r in results if not r.get("harness_error") and not r.get("inconclusive")]

    cases = sum(r["cases"] for r in ok)
    evals = sum(r["evals"] for r in ok)
    nt = set()
    nt_count = 0
    classes = Counter()
    per_sub = {}
    samples = []
    hashseeds = sorted({r["hashseed"] for r in ok})
    buckets = {}  # (sub,label) -> merged
    for r in ok:
        nt.update(f"{r['sub']}:{h}" for h in r["nt_hashes"])
        nt_count += r["nt_count"]
        for c, v in r["classes"].items():
            classes[f"{r['sub']}:{c}"] += v
        ps = per_sub.setdefault(r["sub"], {"cases": 0, "evals": 0, "shards": 0, "wall_s": 0.0})
        ps["cases"] += r["cases"]
        ps["evals"] += r["evals"]
        ps["shards"] += 1
        if r.get("fuzz"):
            cg = ps.setdefault("coverage_guided", {"shards": 0, "seconds_each": r["fuzz"].get("seconds"), "executions": 0, "decoded_cases": 0})
            cg["shards"] += 1
            cg["executions"] += r["fuzz"].get("executions", 0)
            cg["decoded_cases"] += r["fuzz"].get("decoded_cases", 0)
            if r["fuzz"].get("unavailable"):
                cg["unavailable"] = r["fuzz"]["unavailable"]
        ps["wall_s"] = round(max(ps["wall_s"], r["wall_s"]), 1)
        if r.get("enumerated_range"):
            ps["enumerated_total"] = r["enumerated_range"][2]
        for s in r["samples"][:1]:
            if len([1 for x in samples if x["sub"] == r["sub"]]) < 2:
                samples.append({"sub": r["sub"], "case": s})
        for label, b in r["buckets"].items():
            key = (r["sub"], label)
            m = buckets.get(key)
            cand = dict(b, hashseed=r["hashseed"], shard=r["shard"])
            if m is None:
                buckets[key] = cand
            else:
                total = m["count"] + b["count"]
                # unknown beats known; then shrunk beats unshrunk; then smaller
                def rank(x):
                    c = x.get("shrunk") or x["case"]
                    return (x["known"] is not None, "shrunk" not in x, len(core.dumps(c)))

                if rank(cand) < rank(m):
                    buckets[key] = cand
                buckets[key]["count"] = total

    # sweep subs: identical cases evaluated under different hash seeds must give the same answer
    cmp_fn = getattr(mod, "compare_answers", deep_close)
    for s in subs:
        if not s.sweep:
            continue
        rs = [r for r in ok if r["sub"] == s.name]
        ref = {}
        ncmp = 0
        for r in rs:
            for h, a in r.get("answers", {}).items():
                if h in ref:
                    ncmp += 1
                    if not cmp_fn(ref[h][0], a):
                        key = (s.name, "sweep:answers differ across hash seeds")
                        if key not in buckets:
                            buckets[key] = {
                                "count": 1,
                                "known": None,
                                "case": {"case_hash": h, "a": ref[h][0], "b": a, "hashseeds": [ref[h][1], r["hashseed"]]},
                                "detail": f"hashseed {ref[h][1]} vs {r['hashseed']}",
                                "hashseed": r["hashseed"],
                                "shard": r["shard"],
                            }
                else:
                    ref[h] = (a, r["hashseed"])
        per_sub.setdefault(s.name, {})["cross_hashseed_comparisons"] = ncmp

    violations = []
    known_hit = {}
    os.makedirs(os.path.join(OUT, "replays", prop), exist_ok=True)
    for (sub, label), b in sorted(buckets.items()):
        if b["known"] is not None:
            known_hit.setdefault(b["known"], 0)
            known_hit[b["known"]] += b["count"]
            continue
        case = b.get("shrunk") or b["case"]
        slug = "".join(ch if ch.isalnum() else "_" for ch in f"{sub}-{label}")[:90]
        path = os.path.join(OUT, "replays", prop, f"{slug}.json")
        with open(path, "w") as f:
            f.write(
                core.dumps(
                    {
                        "property": prop,
                        "subcheck": sub,
                        "label": label,
                        "detail": b["detail"],
                        "hashseed": b["hashseed"],
                        "seed": seed,
                        "tier": tier,
                        "shrunk": "shrunk" in b,
                        "count_in_run": b["count"],
                        "case": case,
                    },
                    indent=1,
                )
            )
        violations.append((sub, label, path, b))

    all_known = {e["id"]: e for e in findings.load(prop)}
    for kid, cnt in sorted(known_hit.items()):
        print(f"KNOWN-FINDING: property={prop} {kid}: {all_known[kid].get('what', '')[:240]} (hit {cnt}x)")
    for sub, label, path, b in violations:
        print(f"  unlisted failure sub={sub} label={label} count={b['count']} detail={b['detail'][:300]}")
        print(f"VIOLATION property={prop} replay={path}")

    distinct_nt = len(nt) + nt_count
    exhaustive = bool(getattr(mod, "EXHAUSTIVE", {}).get(tier)) and not inconclusive and not harness_errors
    evidence = {
        "property_id": prop,
        "tier": tier,
        "seed": seed,
        "level": "exploration",
        "coverage": {
            "evaluations": int(evals),
            "cases": int(cases),
            "distinct_nontrivial": int(distinct_nt),
            "rule": getattr(mod, "RULE", ""),
            "samples": samples[:8],
            "per_subcheck": per_sub,
            "class_histogram": dict(sorted(classes.items())),
            "hashseeds": hashseeds,
            "known_findings_hit": known_hit,
            "inconclusive_shards": inconclusive,
            "exhaustive": exhaustive,
            "exhaustive_bound": getattr(mod, "EXHAUSTIVE", {}).get(tier) or "",
            "subchecks": {s.name: s.doc for s in subs},
        },
        "assumptions": list(getattr(mod, "ASSUMPTIONS", [])),
        "wall_s": round(time.time() - t0, 2),
        "violations": len(violations),
    }
    if not only:
        os.makedirs(os.path.join(OUT, "evidence"), exist_ok=True)
        with open(os.path.join(OUT, "evidence", f"{prop}.json"), "w") as f:
            f.write(core.dumps(evidence, indent=1))
    print(
        f"{prop} {tier} seed={seed}: cases={cases} evaluations={evals} distinct_nontrivial={distinct_nt} "
        f"violations={len(violations)} known={len(known_hit)} inconclusive={len(inconclusive)} "
        f"wall={evidence['wall_s']}s"
    )
    if harness_errors:
        for r in harness_errors[:3]:
            print(f"HARNESS ERROR in {r['sub']}#{r['shard']}:\n{r['harness_error']}", file=sys.stderr)
        return 1 if violations else 2
    return 1 if violations else 0


if __name__ == "__main__":
    sys.exit(main(sys.argv[1:]))
