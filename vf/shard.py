"""One shard = one fresh interpreter: runs one sub-check of one property over its share of the cases.

usage: python -m vf.shard <prop> <sub> <tier> <k> <nshards> <seed> <outfile>
"""
import importlib
import json
import os
import sys
import time
import traceback
from collections import Counter

from . import core, findings


def _hyp_seed(seed, sub, k, sweep):
    import zlib

    base = zlib.crc32(f"{seed}/{sub}".encode())
    return base if sweep else (base * 1000003 + k * 7919 + 1) % (2**63)


class Collector:
    def __init__(self, prop, sub, mod, distinct_by_construction=False):
        self.prop, self.sub, self.mod = prop, sub, mod
        self.known = findings.load(prop)
        self.predicates = getattr(mod, "PREDICATES", {})
        self.cases = 0
        self.evals = 0
        self.nt_hashes = set()
        self.nt_count = 0
        self.classes = Counter()
        self.buckets = {}
        self.samples = []
        self.largest = (0, None)
        self.answers = {}
        self.dbc = distinct_by_construction

    def run_case(self, case):
        out = core.Out()
        self.sub.check(case, out)
        self.cases += 1
        self.evals += out.evals
        for c in out.classes:
            self.classes[c] += 1
        if out.nontrivial:
            if self.dbc:
                self.nt_count += 1
            else:
                self.nt_hashes.add(core.case_hash(case))
        if len(self.samples) < 2 and out.nontrivial:
            self.samples.append(out.sample if out.sample is not None else case)
        if getattr(out, "answer", None) is not None:
            self.answers[core.case_hash(case)] = out.answer
        for label, detail in out.failures:
            b = self.buckets.get(label)
            size = len(core.dumps(case))
            if b is None:
                kid = findings.match(self.known, self.predicates, self.sub.name, label, case)
                self.buckets[label] = {
                    "count": 1,
                    "known": kid,
                    "case": case,
                    "size": size,
                    "detail": detail,
                }
            else:
                b["count"] += 1
                # a bucket is known only if *every* record in it is covered by a known entry
                kid = findings.match(self.known, self.predicates, self.sub.name, label, case)
                if kid is None and b["known"] is not None:
                    b.update(known=None, case=case, size=size, detail=detail)
                elif (kid is None) == (b["known"] is None) and size < b["size"]:
                    b.update(case=case, size=size, detail=detail)
        return out


def _settings(n, phases):
    from hypothesis import HealthCheck, settings

    return settings(
        max_examples=n,
        database=None,
        deadline=None,
        derandomize=False,
        report_multiple_bugs=False,
        phases=phases,
        suppress_health_check=[HealthCheck.too_slow, HealthCheck.data_too_large, HealthCheck.large_base_example],
        print_blob=False,
    )


def run_strategy(col, sub, tier, hseed, n):
    from hypothesis import Phase, given, seed

    strat = sub.strategy(tier)

    @seed(hseed)
    @_settings(n, [Phase.generate])
    @given(strat)
    def t(case):
        col.run_case(case)

    t()


def shrink_bucket(col, sub, tier, hseed, n, label, budget=300):
    """Second pass: same strategy and seed, now failing on `label` only, so Hypothesis shrinks it."""
    from hypothesis import Phase, given, seed

    strat = sub.strategy(tier)
    st = {"best": None, "calls": 0, "frozen": None}
    t_end = time.time() + float(os.environ.get("VF_SHRINK_SECONDS", "45"))  # a less-minimal replay, never a verdict
    known = col.known
    preds = col.predicates

    class Hit(Exception):
        pass

    @seed(hseed)
    @_settings(n, [Phase.generate, Phase.shrink])
    @given(strat)
    def t(case):
        if st["best"] is not None:
            st["calls"] += 1
            if st["calls"] > budget or time.time() > t_end:
                if st["frozen"] is None:
                    st["frozen"] = core.dumps(st["best"])
                if core.dumps(case) == st["frozen"]:
                    raise Hit()
                return
        out = core.Out()
        sub.check(case, out)
        for lab, _ in out.failures:
            if lab == label and findings.match(known, preds, sub.name, lab, case) is None:
                st["best"] = case
                raise Hit()

    try:
        t()
    except Exception:  # noqa: BLE001 - Hit, Flaky, ...: whatever happened, use the best case seen
        pass
    return st["best"]


def main(argv):
    prop, subname, tier, k, nshards, seed, outfile = argv
    k, nshards, seed = int(k), int(nshards), int(seed)
    t0 = time.time()
    res = {"sub": subname, "shard": k, "hashseed": os.environ.get("PYTHONHASHSEED"), "harness_error": None}
    # the runner sends SIGUSR1 before it gives up on a shard: leave the Python stacks where it can read them
    try:
        import faulthandler
        import signal

        _stack = open(os.path.join(os.environ.get("VF_TMP", "."), "stack.txt"), "w")
        faulthandler.register(signal.SIGUSR1, file=_stack, all_threads=True)
    except Exception:  # noqa: BLE001
        pass
    try:
        core.setup_repo_import()
        mod = importlib.import_module(f"vf.props.{prop.lower()}")
        sub = {s.name: s for s in mod.SUBCHECKS}[subname]
        col = Collector(prop, sub, mod, distinct_by_construction=sub.enumerate is not None)
        # regression corpus first (shard 0 only)
        if k == 0:
            cdir = os.path.join(findings.HERE, "corpus", prop)
            if os.path.isdir(cdir):
                for fn in sorted(os.listdir(cdir)):
                    if fn.endswith(".json"):
                        with open(os.path.join(cdir, fn)) as f:
                            rec = core.loads(f.read())
                        if rec.get("subcheck") == subname:
                            col.run_case(rec["case"])
                            col.classes["corpus_replayed"] += 1
        if sub.enumerate is not None:
            total, it = sub.enumerate(tier)
            lo = total * k // nshards
            hi = total * (k + 1) // nshards
            for case in it(lo, hi):
                col.run_case(case)
            res["enumerated_range"] = [lo, hi, total]
        else:
            n = sub.n[tier]
            if tier == "thorough":  # per-property depth factor, set from the measured cost of one thorough run
                n = int(n * float(os.environ.get("VF_THOROUGH_SCALE") or getattr(mod, "THOROUGH_SCALE", 1)))
            hseed = _hyp_seed(seed, subname, k, sub.sweep)
            run_strategy(col, sub, tier, hseed, n)
            # shrink what is not covered by a known finding (at most 3 buckets per shard)
            todo = [lab for lab, b in col.buckets.items() if b["known"] is None][:3]
            for lab in todo:
                best = shrink_bucket(col, sub, tier, hseed, n, lab)
                if best is not None:
                    col.buckets[lab]["shrunk"] = best
        res.update(
            cases=col.cases,
            evals=col.evals,
            nt_hashes=sorted(col.nt_hashes),
            nt_count=col.nt_count,
            classes=dict(col.classes),
            buckets=col.buckets,
            samples=col.samples,
            answers=col.answers,
        )
    except BaseException as e:  # noqa: BLE001
        res["harness_error"] = "".join(traceback.format_exception(type(e), e, e.__traceback__))[-6000:]
    res["wall_s"] = time.time() - t0
    with open(outfile, "w") as f:
        f.write(core.dumps(res))
    return 0


if __name__ == "__main__":
    sys.exit(main(sys.argv[1:]))
