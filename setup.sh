#!/bin/bash
# Offline setup: make sure hypothesis is importable in /venv (it is pre-installed in this image; install from the
# local wheelhouse otherwise).  Nothing is built: pgmpy is pure Python and imported from /repo's working tree.
set -e
cd "$(dirname "$0")"
if ! /venv/bin/python -c "import hypothesis" 2>/dev/null; then
  PIP_NO_INDEX=1 /venv/bin/pip install --no-index --find-links /opt/veriftools/wheels hypothesis
fi
# atheris (coverage-guided arm of the thorough tier) goes next to the checks, not into /venv; if the wheel is missing the
# fuzz shards report themselves as unavailable and the random shards still decide the property
if ! PYTHONPATH="$PWD/.deps" /venv/bin/python -c "import atheris" 2>/dev/null; then
  mkdir -p .deps
  PIP_NO_INDEX=1 /venv/bin/pip install -q --no-index --find-links /opt/veriftools/wheels --target .deps atheris || echo "atheris not installed: coverage-guided shards will be skipped"
fi
/venv/bin/python -c "import hypothesis, numpy, pandas, networkx, scipy; print('hypothesis', hypothesis.__version__)"
mkdir -p evidence replays
