#!/bin/bash
# Offline setup: make sure hypothesis is importable in /venv (it is pre-installed in this image; install from the
# local wheelhouse otherwise).  Nothing is built: pgmpy is pure Python and imported from /repo's working tree.
set -e
cd "$(dirname "$0")"
if ! /venv/bin/python -c "import hypothesis" 2>/dev/null; then
  PIP_NO_INDEX=1 /venv/bin/pip install --no-index --find-links /opt/veriftools/wheels hypothesis
fi
/venv/bin/python -c "import hypothesis, numpy, pandas, networkx, scipy; print('hypothesis', hypothesis.__version__)"
mkdir -p evidence replays
